"""C05 - Variable scoping: locals end with their element, globals persist.

Parts
  scope     nestings (depth <= 4) of tal:define (local / global / tuple
            unpacking / several parts) and tal:repeat over a small colliding
            name pool that includes Python builtins (len str id type int) and
            names used by the generated code (get getname re functools intern
            chain convert); each name is or is not pre-bound by the caller.
            Probes "${name | 'U'}" stand before, inside and after every
            element.  Oracle: reference interpreter with a scope chain.
  reserved  econtext / rcontext / __names as tal:define or tal:repeat target
            (any position of a tuple, local or global) must be rejected with
            TranslationError when the template is constructed; near misses
            (_x, econtext_, x__) must be accepted.
  scopeobj  Hypothesis state machine: every operation sequence on
            chameleon.utils.Scope (set local, set_global, copy, get,
            __getitem__, __contains__, __iter__, get_name) against a
            two-level dictionary model.
"""
from __future__ import annotations

from hypothesis import strategies as st

from vlib import tmodel, values
from vlib.cham import run
from vlib.harness import Check, Mismatch, Part, Stage
from checks.c01 import render_chameleon, outcome_key, elems

POOL = ["a", "b", "len", "str", "id", "type", "int", "get", "getname", "re",
        "functools", "intern", "chain", "convert"]
GLOBAL_POOL = ["ga", "gb", "max", "itertools"]


def probe(names, tagno):
    parts = [["lit", "["]]
    for i, n in enumerate(names):
        if i:
            parts.append(["lit", ","])
        parts.append(["interp", ["pipe", [["var", n], ["const", "'U'"]]]])
    parts.append(["lit", "]"])
    return ["text", parts]


@st.composite
def scope_cases(draw, depth=4):
    names = draw(st.lists(st.sampled_from(POOL), min_size=2, max_size=4,
                          unique=True))
    gnames = draw(st.lists(st.sampled_from(GLOBAL_POOL), min_size=0,
                           max_size=2, unique=True))
    pre = {}
    for n in names + gnames:
        c = draw(st.integers(0, 7))
        if c <= 2:
            pre[n] = ["str", "pre-" + n]
        elif c == 3:
            # falsy values are the classic wrong "not bound" sentinels
            pre[n] = draw(st.sampled_from([["none"], ["int", 0], ["str", ""],
                                           ["bool", False]]))
    counter = [0]

    def val():
        counter[0] += 1
        if draw(st.integers(0, 7)) == 0:
            return ["const", draw(st.sampled_from(
                ["None", "0", "''", "False", "()"]))]
        return ["const", "'v%d'" % counter[0]]

    def element(d, active):
        """active: names that currently hold a local binding made by an
        enclosing element (global definitions avoid them: K4 region)."""
        el = {"name": draw(st.sampled_from(["div", "p", "b"])), "attrs": [],
              "stmts": {}, "children": [], "order": [draw(st.integers(0, 3))],
              "close_space": ""}
        mine = set()
        kind = draw(st.sampled_from(["define", "define", "repeat", "both",
                                     "none"]))
        if kind in ("define", "both"):
            defs = []
            for _ in range(draw(st.integers(1, 3))):
                c = draw(st.integers(0, 5))
                if c == 0 and len(gnames) >= 2 and draw(st.booleans()):
                    # several global names from one value
                    counter[0] += 1
                    defs.append(["global", list(gnames[:2]), [
                        "const", "('g%da', 'g%db')" % (counter[0],
                                                       counter[0])]])
                elif c == 0 and gnames:
                    g = draw(st.sampled_from(gnames + gnames + names))
                    defs.append(["global", [g], val()])
                elif c == 1 and len(names) >= 2:
                    two = draw(st.lists(st.sampled_from(names), min_size=2,
                                        max_size=2, unique=True))
                    counter[0] += 1
                    defs.append(["local", two, ["const", "('t%da', 't%db')" % (
                        counter[0], counter[0])]])
                    mine.update(two)
                elif c == 2 and mine:
                    # a later part refers to an earlier one
                    src = draw(st.sampled_from(sorted(mine)))
                    n = draw(st.sampled_from(names))
                    defs.append(["local", [n], ["binop", "+", ["call", "str",
                                [["var", src]]], ["const", "'+'"]]])
                    mine.add(n)
                else:
                    n = draw(st.sampled_from(names))
                    defs.append([draw(st.sampled_from(["local", "local!"])),
                                 [n], val()])
                    mine.add(n)
            el["stmts"]["define"] = defs
        if kind in ("repeat", "both"):
            n = draw(st.sampled_from(names))
            counter[0] += 1
            k = counter[0]
            seq = draw(st.sampled_from(
                ["('r%da', 'r%db')" % (k, k), "('r%d',)" % k, "()", "None"]))
            el["stmts"]["repeat"] = [[n], ["const", seq]]
            mine.add(n)
        if draw(st.integers(0, 4)) == 0:
            # rendered in place, but through the macro calling convention
            # (copy of the variables; globals merged back afterwards)
            counter[0] += 1
            el["extra_attrs"] = [' metal:define-macro="m%d"' % counter[0]]
        kids = [probe(names + gnames, 0)]
        if d > 0:
            for _ in range(draw(st.integers(0, 2))):
                kids.append(["elem", element(d - 1, active | mine)])
                kids.append(probe(names + gnames, 0))
        el["children"] = kids
        return el

    nodes = [probe(names + gnames, 0)]
    for _ in range(draw(st.integers(1, 2))):
        nodes.append(["elem", element(depth - 1, set())])
        nodes.append(probe(names + gnames, 0))
    return {"nodes": nodes, "bindings": pre, "names": names + gnames}


class ScopeInterp(tmodel.Interp):
    """Global definitions are render-wide: they also replace a binding
    passed by the caller."""

    def elem_body(self, el):
        for scope, names, e in el["stmts"].get("define", ()):
            if scope == "global":
                for n in names:
                    self.frames[0].pop(n, None)
        return super().elem_body(el)


def flat_model(nodes, env):
    """Deviation model of K4: the variable context is ONE flat dictionary
    with save/restore brackets (what the implementation does); a global
    definition inside an element that holds a local of the same name is
    undone when that local is restored."""
    it = ScopeInterp(env, source_info=tmodel.separators(nodes))
    flat = dict(it.frames[0])
    it.frames = [flat]
    marker = object()
    rc = {}         # the render-wide dictionary of global definitions

    def same(a, b):
        # stands for "is the same object": the generator's global values are
        # constants of distinct value per site, or singletons
        return type(a) is type(b) and a == b

    def elem_body(el):
        if el.get("extra_attrs") and not el.get("_in_macro"):
            # in-place macro: the body works on a copy of the variables;
            # afterwards the globals it (re)defined are copied back
            before = dict(rc)
            saved_flat = dict(flat)
            el["_in_macro"] = True
            try:
                elem_body(el)
            finally:
                el.pop("_in_macro")
            flat.clear()
            flat.update(saved_flat)
            for k, v in rc.items():
                if k not in before or not same(before[k], v):
                    flat[k] = v
            return
        st_ = el["stmts"]
        saved = []
        for scope, names, e in st_.get("define", ()):
            v = it.eval(e)
            vals = [v] if len(names) == 1 else list(v)
            if scope != "global":
                for n in names:
                    saved.append((n, flat.get(n, marker)))
            for n, x in zip(names, vals):
                flat[n] = x
                if scope == "global":
                    rc[n] = x
        it.guards(el, 0)
        for n, old in reversed(saved):
            if old is marker:
                flat.pop(n, None)
            else:
                flat[n] = old
    it.elem_body = elem_body
    orig_guards = it.guards

    def guards(el, i):
        st_ = el["stmts"]
        if i < len(it.guard_order) and it.guard_order[i] == "repeat" and \
                "repeat" in st_:
            names, e = st_["repeat"]
            old = [(n, flat.get(n, marker)) for n in names]
            seq = it.eval(e)
            items = list(seq) if seq is not None else []
            for n in names:
                flat[n] = None
            sep = it.seps.get(id(el), "")
            for idx, x in enumerate(items):
                flat[names[0]] = x
                orig_guards(el, i + 1)
                if idx < len(items) - 1:
                    it.out.append(sep)
            for n, o in old:
                if o is marker:
                    flat.pop(n, None)
                else:
                    flat[n] = o
            return
        return orig_guards(el, i)
    it.guards = guards
    try:
        return ("out", it.render(nodes))
    except tmodel.ModelRaises as m:
        return ("exc", type(m.exc).__name__)


class ScopePart(Part):
    name = "scope"
    examples = {"quick": 1500, "thorough": 40000}
    floors = {"shadow": 0.3, "global_in_macro": 0.03}

    def strategy(self, tier):
        return scope_cases(depth=3 if tier == "quick" else 4)

    def source(self, case):
        return tmodel.serialize(case["nodes"]).text()

    def _levels(self, case):
        """max number of nested definitions of one name"""
        best = [0]

        def walk(ns, held):
            for n in ns:
                if n[0] != "elem":
                    continue
                el = n[1]
                mine = set()
                for scope, names, e in el["stmts"].get("define", ()):
                    if scope != "global":
                        mine.update(names)
                if "repeat" in el["stmts"]:
                    mine.update(el["stmts"]["repeat"][0])
                h2 = dict(held)
                for m in mine:
                    h2[m] = h2.get(m, 0) + 1
                    best[0] = max(best[0], h2[m])
                walk(el["children"], h2)
        walk(case["nodes"], {k: 1 for k in case["bindings"]})
        return best[0]

    def nontrivial(self, case):
        return self._levels(case) >= 2

    def labels(self, case):
        if self._levels(case) >= 2:
            yield "shadow"
        if any(sc == "global" for e in elems(case["nodes"])
               for sc, _, _ in e["stmts"].get("define", ())):
            yield "global"
        for e in elems(case["nodes"]):
            if e.get("extra_attrs") and any(
                    sc == "global" for e2 in [e] + list(elems(e["children"]))
                    for sc, _, _ in e2["stmts"].get("define", ())):
                yield "global_in_macro"
                break

    def sample(self, case):
        return {"source": self.source(case), "bindings": case["bindings"]}

    def _global_in_local(self, case):
        """K4 trigger: a global definition of a name while an enclosing (or
        the same) element holds a local binding of that name."""
        hit = [False]

        def walk(ns, held):
            for n in ns:
                if n[0] != "elem":
                    continue
                el = n[1]
                mine = set(held)
                for scope, names, e in el["stmts"].get("define", ()):
                    if scope == "global":
                        if set(names) & mine:
                            hit[0] = True
                    else:
                        mine.update(names)
                if "repeat" in el["stmts"]:
                    mine.update(el["stmts"]["repeat"][0])
                walk(el["children"], mine)
        walk(case["nodes"], set())
        return hit[0]

    def oracle(self, case):
        src = self.source(case)
        env = values.env(case["bindings"])
        got = outcome_key(render_chameleon(src, dict(env)))
        it = ScopeInterp(values.env(case["bindings"]),
                         source_info=tmodel.separators(case["nodes"]))
        try:
            exp = ("out", it.render(case["nodes"]))
        except tmodel.ModelRaises as m:
            exp = ("exc", type(m.exc).__name__)
        if got == exp:
            return None
        detail = {"source": src, "bindings": case["bindings"], "got": got,
                  "expected": exp}
        if self._global_in_local(case) and got == flat_model(
                case["nodes"], values.env(case["bindings"])):
            return Mismatch("scope:K4", detail)
        return Mismatch("scope:probe differs" if got[0] == exp[0] == "out"
                        else "scope:%s vs %s" % (got[0], exp[0]), detail)

    def known(self, case, mismatch):
        return "K4" if mismatch.bucket == "scope:K4" else None


RESERVED = ["econtext", "rcontext", "__x", "__", "__builtins__", "__token",
            "__stream"]
NEAR = ["_x", "econtext_", "x__", "rcontext2", "_"]


class Reserved(Part):
    name = "reserved"
    examples = {"quick": 300, "thorough": 3000}

    def strategy(self, tier):
        return st.fixed_dictionaries({
            "name": st.sampled_from(RESERVED + NEAR),
            "stmt": st.sampled_from(["define", "define-global", "define-2nd",
                                     "tuple-1", "tuple-2", "repeat",
                                     "repeat-tuple"]),
            "depth": st.integers(0, 2),
            "lead": st.sampled_from(["", "\n  ", "é "]),
        })

    def source(self, case):
        n = case["name"]
        s = case["stmt"]
        if s == "define":
            a = 'tal:define="%s 1"' % n
        elif s == "define-global":
            a = 'tal:define="global %s 1"' % n
        elif s == "define-2nd":
            a = 'tal:define="ok 1; %s 2"' % n
        elif s == "tuple-1":
            a = 'tal:define="(%s, ok) (1, 2)"' % n
        elif s == "tuple-2":
            a = 'tal:define="(ok, %s) (1, 2)"' % n
        elif s == "repeat":
            a = 'tal:repeat="%s (1, 2)"' % n
        else:
            a = 'tal:repeat="(ok, %s) ((1, 2),)"' % n
        inner = "<i %s>x</i>" % a
        for _ in range(case["depth"]):
            inner = "<div>" + inner + "</div>"
        return case["lead"] + inner

    def nontrivial(self, case):
        return case["name"] in RESERVED

    def labels(self, case):
        yield "reserved" if case["name"] in RESERVED else "near_miss"

    def oracle(self, case):
        from chameleon import PageTemplate
        from chameleon.exc import TranslationError
        src = self.source(case)
        o = run(PageTemplate, src)
        if case["name"] in RESERVED:
            if o.ok:
                return Mismatch("reserved:accepted", {"source": src})
            if not isinstance(o.exc, TranslationError):
                return Mismatch("reserved:wrong error " + o.exc_name,
                                {"source": src, "outcome": o.brief()})
            return None
        if not o.ok:
            return Mismatch("reserved:near miss rejected " + o.exc_name,
                            {"source": src, "outcome": o.brief()})
        r = run(o.value.render)
        if not r.ok:
            return Mismatch("reserved:near miss render raises " + r.exc_name,
                            {"source": src, "outcome": r.brief()})
        return None


class GlobalRepeat(Part):
    """tal:repeat with the (undocumented, but accepted) 'global' keyword:
    the loop variable is a global definition - it must render, show each
    item inside the loop and keep the last item afterwards, also after
    returning from an in-place macro.  (What the name holds after a loop
    over an empty sequence is not asserted.)"""
    name = "globalrepeat"
    examples = {"quick": 150, "thorough": 3000}

    def strategy(self, tier):
        return st.fixed_dictionaries({
            "name": st.sampled_from(["x", "len", "get", "ga"]),
            "items": st.lists(st.sampled_from(["a", "b", "c"]), max_size=3),
            "prebound": st.booleans(),
            "macro": st.booleans(),
            "outer_local": st.booleans(),
            "tuple": st.booleans(),
        })

    def source(self, case):
        n = case["name"]
        p = "[${%s | 'U'}]" % n
        tgt = "global (%s, other)" % n if case["tuple"] else "global " + n
        loop = '<i tal:repeat="%s seq"%s>%s</i>' % (
            tgt, ' metal:define-macro="m"' if case["macro"] else "", p)
        body = p + loop + p
        if case["outer_local"]:
            body = '<div tal:define="unrelated 1">%s</div>' % body
        return body + p

    def nontrivial(self, case):
        return len(case["items"]) > 0

    def labels(self, case):
        if case["macro"]:
            yield "in_macro"
        if not case["items"]:
            yield "empty"

    def oracle(self, case):
        from chameleon import PageTemplate
        src = self.source(case)
        env = {"seq": [(x, 0) for x in case["items"]] if case["tuple"]
               else list(case["items"])}
        if case["prebound"]:
            env[case["name"]] = "pre"
        detail = {"source": src, "env": {k: v for k, v in env.items()}}
        o = run(PageTemplate, src)
        if not o.ok:
            return Mismatch("globalrepeat:compile raises " + o.exc_name,
                            dict(detail, outcome=o.brief()))
        o = run(o.value.render, **env)
        if not o.ok:
            return Mismatch("globalrepeat:render raises " + o.exc_name,
                            dict(detail, outcome=o.brief()))
        import re as _re
        probes = _re.findall(r"\[([^\]]*)\]", o.value)
        detail["got"] = o.value
        items = case["items"]
        first = "pre" if case["prebound"] else (
            "U" if case["name"] in ("x", "ga") else None)
        if len(probes) != 3 + len(items):
            return Mismatch("globalrepeat:number of probes", detail)
        if first is not None and probes[0] != first:
            return Mismatch("globalrepeat:before the loop", detail)
        if probes[1:1 + len(items)] != items:
            return Mismatch("globalrepeat:inside the loop", detail)
        if items and probes[-2:] != [items[-1]] * 2:
            return Mismatch("globalrepeat:after the loop", detail)
        return None


HELPERS = ["translate", "decode", "on_error_handler", "get", "getname",
           "convert", "intern", "re", "functools", "chain", "str", "len",
           "repeat", "template", "macros", "nothing",
           "target_language", "macroname", "error", "modules", "type",
           "encoded", "quote", "g_re_amp", "Symbol"]


BYSTANDERS = {
    # name -> (source, expected output)
    "none": ("", ""),
    "i18n_attr": ('<u title="T" i18n:attributes="title">t</u>',
                  '<u title="T">t</u>'),
    "i18n_attr_dyn": ('<u tal:attributes="title string:D" '
                      'i18n:attributes="title">t</u>', '<u title="D">t</u>'),
    "i18n_translate": ('<u i18n:translate="">Hello <em i18n:name="w">W</em>'
                       '</u>', '<u>Hello <em>W</em></u>'),
    "bytes": ("<u>${bys_bytes}</u>", "<u>caf\u00e9 &lt;</u>"),
    "onerror": ('<u tal:on-error="string:E">${1/0}</u>', "<u>E</u>"),
    "loop": ('<tal:z repeat="zz (1, 2)">${zz},</tal:z>', "1,2,"),
    "switch": ('<u tal:switch="1"><s tal:case="1">one</s></u>',
               "<u><s>one</s></u>"),
    "escape": ("<u title=\"${'<&>'}\">${'&>'}</u>",
               '<u title="&lt;&amp;&gt;">&amp;&gt;</u>'),
    "macro": ('<u metal:define-macro="mm">M</u>', "<u>M</u>"),
}


class Helpers(Part):
    """A name of the engine's own helpers (or of a value the engine binds)
    that a template defines holds, where it is read, what was defined."""
    name = "helpers"
    examples = {"quick": 600, "thorough": 8000}

    def strategy(self, tier):
        return st.fixed_dictionaries({
            "name": st.sampled_from(HELPERS),
            "via": st.sampled_from(["define", "repeat", "argument",
                                    "global", "codeblock_param",
                                    "lambda_param"]),
            "read": st.sampled_from(["interp", "content", "attribute",
                                     "condition"]),
            # another construct in the same scope that needs the engine's
            # own machinery: it must work as if the name were not bound
            "bystander": st.sampled_from(sorted(BYSTANDERS)),
        })

    def source(self, case):
        n = case["name"]
        if case["read"] == "interp":
            r = "<b>${%s}</b>" % n
        elif case["read"] == "content":
            r = '<b tal:content="%s">x</b>' % n
        elif case["read"] == "attribute":
            r = '<b tal:attributes="title %s"/>' % n
        else:
            r = '<b tal:condition="%s == \'v\'">yes</b>' % n
        r += BYSTANDERS[case.get("bystander", "none")][0]
        if case["via"] == "define":
            return '<i tal:define="%s \'v\'">%s</i>' % (n, r)
        if case["via"] == "global":
            return '<i tal:define="global %s \'v\'"/><i>%s</i>' % (n, r)
        if case["via"] == "repeat":
            return '<i tal:repeat="%s (\'v\',)">%s</i>' % (n, r)
        if case["via"] == "codeblock_param":
            # a function parameter of that name elsewhere in the template
            return ("<?python\ndef fn(%s):\n    return %s\n?><i>%s</i>"
                    % (n, n, r))
        if case["via"] == "lambda_param":
            return ('<i tal:define="fn lambda %s: (lambda q: %s)(1)">%s</i>'
                    % (n, n, r))
        return "<i>%s</i>" % r

    def expected(self, case):
        r = {"interp": "<b>v</b>", "content": "<b>v</b>",
             "attribute": '<b title="v"/>', "condition": "<b>yes</b>"}[
                 case["read"]]
        r += BYSTANDERS[case.get("bystander", "none")][1]
        if case["via"] == "global":
            return "<i/><i>%s</i>" % r
        return "<i>%s</i>" % r

    def nontrivial(self, case):
        return True

    def labels(self, case):
        yield "via_" + case["via"]

    def oracle(self, case):
        from chameleon import PageTemplate
        src = self.source(case)
        detail = {"source": src}
        o = run(PageTemplate, src)
        if not o.ok:
            return Mismatch("helpers:compile raises " + o.exc_name,
                            dict(detail, outcome=o.brief()))
        env = {case["name"]: "v"} if case["via"] in (
            "argument", "codeblock_param", "lambda_param") else {}
        env["bys_bytes"] = "caf\u00e9 <".encode("utf-8")
        if case["name"] == "target_language" and \
                case.get("bystander", "").startswith("i18n"):
            # (documented: this variable IS the translation target)
            return None
        if case["name"] == "translate" and case["name"] in env:
            # (documented: the 'translate' argument of render() IS the
            # translation function)
            return None
        o = run(o.value.render, **env)
        if o.ok and case.get("bystander", "none") != "none":
            # which half is wrong?  the reader alone is K13 territory
            rd = self.expected(dict(case, bystander="none"))
            by = BYSTANDERS[case["bystander"]][1]
            if o.value != self.expected(case) and rd[:-4] in o.value and \
                    by not in o.value:
                return Mismatch("helpers:another construct in the scope is "
                                "affected (%s)" % case["bystander"],
                                dict(detail, got=o.value,
                                     expected=self.expected(case)))
        elif not o.ok and case.get("bystander", "none") != "none":
            o2 = run(PageTemplate, self.source(dict(case, bystander="none")))
            o2 = run(o2.value.render, **env) if o2.ok else o2
            if o2.ok:
                if case["name"] == "repeat" and \
                        case["bystander"] == "loop" and \
                        o.exc_name == "TypeError" and \
                        "not callable" in str(o.exc):
                    return Mismatch("helpers:K15", dict(
                        detail, outcome=o.brief()))
                return Mismatch("helpers:another construct in the scope "
                                "fails (%s)" % case["bystander"],
                                dict(detail, outcome=o.brief()))
        bucket = None
        if not o.ok:
            bucket = "helpers:render raises " + o.exc_name
            detail["outcome"] = o.brief()
        elif o.value != self.expected(case):
            bucket = "helpers:reads something else"
            detail.update(got=o.value, expected=self.expected(case))
        if bucket is None:
            return None
        if case["name"] in ("translate", "decode", "on_error_handler"):
            return Mismatch("helpers:K13", detail)
        return Mismatch(bucket, detail)

    def known(self, case, mismatch):
        return {"helpers:K13": "K13", "helpers:K15": "K15"}.get(
            mismatch.bucket)


class ScopeObject(Stage):
    """Stateful model-based test of chameleon.utils.Scope."""
    name = "scopeobj"

    def run(self, tier, seed, check):
        import hypothesis
        from hypothesis import settings, HealthCheck
        from hypothesis.stateful import (RuleBasedStateMachine, rule,
                                         invariant, initialize,
                                         run_state_machine_as_test)
        from chameleon.utils import Scope

        keys = st.sampled_from(["a", "b", "c", "len", "x"])
        vals = st.integers(0, 5)
        stats = {"steps": 0, "machines": 0, "copies": 0}
        failures = []

        class Machine(RuleBasedStateMachine):
            def __init__(self):
                super().__init__()
                stats["machines"] += 1
                self.root = Scope()
                # model: list of (scope, local dict); globals dict shared
                self.g = {}
                self.scopes = [(self.root, None)]
                self.hist = ["Scope()"]

            def _model_get(self, i, k, default):
                s, loc = self.scopes[i]
                if loc is None:        # the root: one level only
                    return self.g.get(k, default)
                if k in loc:
                    return loc[k]
                return self.g.get(k, default)

            @rule(i=st.integers(0, 5), k=keys, v=vals)
            def set_local(self, i, k, v):
                i %= len(self.scopes)
                s, loc = self.scopes[i]
                s[k] = v
                (self.g if loc is None else loc)[k] = v
                self.hist.append("s%d[%r]=%r" % (i, k, v))

            @rule(i=st.integers(0, 5), k=keys, v=vals)
            def set_global(self, i, k, v):
                i %= len(self.scopes)
                self.scopes[i][0].set_global(k, v)
                self.g[k] = v
                self.hist.append("s%d.set_global(%r,%r)" % (i, k, v))

            @rule(i=st.integers(0, 5))
            def copy(self, i):
                i %= len(self.scopes)
                s, loc = self.scopes[i]
                c = s.copy()
                stats["copies"] += 1
                # a copy starts with everything visible in its parent as
                # locals, and shares the root as global level
                vis = dict(self.g) if loc is None else dict(loc)
                self.scopes.append((c, vis))
                self.hist.append("s%d=s%d.copy()" % (len(self.scopes) - 1,
                                                     i))

            @invariant()
            def agrees(self):
                stats["steps"] += 1
                for i, (s, loc) in enumerate(self.scopes):
                    for k in ["a", "b", "c", "len", "x"]:
                        want = self._model_get(i, k, "MISSING")
                        got = s.get(k, "MISSING")
                        assert got == want, ("get", i, k, got, want,
                                             self.hist)
                        assert (k in s) == (want != "MISSING"), (
                            "contains", i, k, self.hist)
                        if want == "MISSING":
                            try:
                                s[k]
                                assert False, ("getitem no KeyError", i, k,
                                               self.hist)
                            except KeyError:
                                pass
                            try:
                                s.get_name(k)
                                assert False, ("get_name", i, k, self.hist)
                            except NameError:
                                pass
                        else:
                            assert s[k] == want, ("getitem", i, k, self.hist)
                            assert s.get_name(k) == want
                    visible = {k for k in ["a", "b", "c", "len", "x"]
                               if self._model_get(i, k, "MISSING")
                               != "MISSING"}
                    it = list(s)
                    assert set(it) == visible, ("iter", i, sorted(it),
                                                sorted(visible), self.hist)
                    assert len(it) == len(set(it)), ("iter dup", i, it,
                                                     self.hist)

        n = 150 if tier == "quick" else 3000
        try:
            run_state_machine_as_test(
                hypothesis.seed(seed)(Machine),
                settings=settings(max_examples=n, stateful_step_count=25,
                                  deadline=None, database=None,
                                  suppress_health_check=list(HealthCheck)))
        except AssertionError as e:
            failures.append(({"history": [str(a)[:2000] for a in e.args]},
                             Mismatch("scopeobj:disagrees with model",
                                      {"args": str(e.args)[:3000]})))
        return {
            "evaluations": stats["steps"],
            "nontrivial_ids": ["machine%d" % i for i in range(
                min(stats["machines"], stats["copies"]))],
            "failures": failures,
            "samples": [{"operations": "set local / set_global / copy, "
                         "then get/[]/in/iter/get_name on every scope"}],
            "info": dict(stats),
        }

    def oracle(self, case):
        return None


CHECK = Check(
    "C05", "exploration",
    rule=("scope: nestings (depth <= 3 quick / 4 thorough) of tal:define "
          "(local, global, tuple, chained parts) and tal:repeat over 2..4 "
          "names drawn from a pool of builtins and generated-code helper "
          "names, each pre-bound or not, with probes of every name before, "
          "inside and after every element; non-trivial = some name bound at "
          ">= 2 nesting levels (or pre-bound and shadowed); reserved: 7 "
          "reserved and 5 near-miss names x 7 statement positions; scopeobj: "
          "state machine on utils.Scope, non-trivial = machines with a copy"),
    parts=[ScopePart(), Reserved(), GlobalRepeat(), Helpers()],
    stages=[ScopeObject()],
    assumptions=[
        "documented special names (repeat, default, nothing, attrs, "
        "template, macros) and the reserved-but-accepted translate / decode "
        "/ on_error_handler are not used as variable names",
        "a global definition also replaces a binding passed by the caller",
        "K4 is attributed only when a global definition happens inside a "
        "same-named local scope AND the flat-dictionary deviation model "
        "reproduces the output exactly",
    ],
    technique="Hypothesis scope-nesting generation + scope-chain reference "
              "model; stateful (rule-based) model test of utils.Scope",
)
