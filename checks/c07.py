"""C07 - Attribute rendering: static, dynamic, default, None, boolean, dict.

One element with 0..5 static attributes (mixed case, both quotes, with and
without ${}) and a tal:attributes list of 0..5 entries (named and dictionary
entries, names overlapping the static ones in different case, ';;' escapes,
entity-encoded text), values from None / default / '' / 0 / False / True /
str / hostile str / numbers / dicts, and three boolean-attribute
configurations (HTML default set, explicit set, none = XML).

Oracle: a reference model of the merge (written from the property text and
docs/reference.rst), compared through the independent reader as an ordered
list (name, quote, value) for static and named attributes; attributes
supplied by a dictionary are compared as a set (their position is not fixed
by the property).  No attribute name may appear twice.
"""
from __future__ import annotations

from hypothesis import strategies as st

from vlib import exprs as X
from vlib import reader, tmodel, values
from vlib.cham import run
from vlib.harness import Check, Mismatch, Part

HTML_BOOL = ["compact", "nowrap", "ismap", "declare", "noshade", "checked",
             "disabled", "readonly", "multiple", "selected", "noresize",
             "defer"]
NAMES = ["class", "id", "href", "title", "checked", "selected", "disabled",
         "data-on", "Selected", "CLASS", "Title", "alt", "x.y"]
EXPLICIT_BOOL = ["checked", "data-on", "Selected", "alt"]


def value_strategy():
    return st.sampled_from([
        ["none"], ["str", ""], ["int", 0], ["bool", False], ["bool", True],
        ["str", "v"], ["str", "a b"], ["str", "<&>\"'"], ["str", "q\"r"],
        ["str", "it's"], ["int", 7], ["float", 1.5], ["str", "é&"],
        ["strsub", "s<b"], ["bytes", "by&te"], ["html", "<i>m</i>"],
        ["obj", "o<bj"]])


@st.composite
def cases(draw):
    config = draw(st.sampled_from(["html", "html", "xml", "explicit",
                                   "empty", "xml_explicit"]))
    statics, seen = [], set()
    for _ in range(draw(st.integers(0, 5))):
        n = draw(st.sampled_from(NAMES))
        if n.lower() in seen:
            continue
        seen.add(n.lower())
        quote = draw(st.sampled_from(['"', '"', "'"]))
        kind = draw(st.integers(0, 5))
        bare = draw(st.integers(0, 7))
        if bare == 0:
            # written without quotes ...
            statics.append([draw(st.sampled_from([" ", "  "])), n, "",
                            [["lit", draw(st.sampled_from(
                                ["s", "x1", "a-b", "1", n]))]]])
            continue
        if bare == 1:
            # ... or without a value
            statics.append([draw(st.sampled_from([" ", "  "])), n, None, []])
            continue
        if kind == 0:
            parts = [["interp", ["var", draw(st.sampled_from(
                ["v0", "v1", "v2"]))]]]
        elif kind == 1:
            parts = [["lit", "p "], ["interp", ["var", draw(st.sampled_from(
                ["v0", "v1", "v2"]))]], ["lit", " s"]]
        else:
            parts = [["lit", draw(st.sampled_from(
                ["s", "", "a b", "x&amp;y", "1 > 0", n, "é",
                 "it's" if quote == '"' else 'say "hi"',
                 # dollar signs that start no interpolation: as written
                 "US$$", "$$name", "$5", "$$$$", "a $ b", "$x.y", "{$$}"]))]]
        statics.append([draw(st.sampled_from([" ", "  ", "\n   "])), n, quote,
                        parts])
    dyn, dseen, dseen_exact = [], set(), set()
    for _ in range(draw(st.integers(0, 5))):
        c = draw(st.integers(0, 9))
        if c <= 1:
            dyn.append([None, ["var", draw(st.sampled_from(["d0", "d1"]))]])
            continue
        n = draw(st.sampled_from(NAMES + ["rel", "Href", "ID"]))
        if n in dseen_exact:
            continue            # (the same spelling twice is an error)
        if n.lower() in dseen and draw(st.integers(0, 2)) > 0:
            continue            # (case variants of one name: sometimes)
        dseen.add(n.lower())
        dseen_exact.add(n)
        k = draw(st.integers(0, 11))
        if k == 0:
            e = ["default"]
        elif k == 1:
            e = ["nothing"]
        elif k == 2:
            e = ["const", draw(st.sampled_from(
                ["'a;b'", "'x & y'", "'1 < 2'", "';'", "'a & b;c'",
                 # text that looks like an entity is text
                 "'&lt;'", "'x &amp; y'", "'&#38;'", "'&quot;q&quot;'"]))]
        elif k == 3:
            e = ["pipe", [["var", "missing"], ["default"]]]
        elif k == 4:
            # (a string: value may END in a semicolon: the doubled one is
            # then directly followed by the separator)
            e = ["prefix", "string", ["string", [
                ["lit", "s:"], ["v", "v0"],
                ["lit", draw(st.sampled_from([";t", ";", "!;", ";;"]))]]]]
        else:
            e = ["var", draw(st.sampled_from(["v0", "v1", "v2", "v3"]))]
        dyn.append([n, e])
    # dictionary keys: exact spelling of a static/named attribute or new
    keypool = [a[1] for a in statics] + [d[0] for d in dyn if d[0]] + \
        ["rel", "lang", "checked", "data-on", "zz"]

    def dict_value():
        keys = draw(st.lists(st.sampled_from(keypool), max_size=3,
                             unique=True))
        return ["dict", [[k, draw(value_strategy())] for k in keys]]
    bindings = {
        "v0": draw(value_strategy()), "v1": draw(value_strategy()),
        "v2": draw(value_strategy()), "v3": draw(value_strategy()),
        "d0": dict_value(), "d1": dict_value(),
    }
    return {"config": config, "name": draw(st.sampled_from(["input", "a",
                                                             "DIV"])),
            "statics": statics, "dyn": dyn, "bindings": bindings,
            "order": draw(st.lists(st.integers(0, 5), min_size=1,
                                   max_size=2)),
            # (an unquoted value directly before "/>" is not generated)
            "selfclose": draw(st.booleans()) and not any(
                a[2] == "" for a in statics)}


def build(case):
    el = {"name": case["name"], "attrs": case["statics"], "stmts": {},
          "children": [], "order": case["order"], "close_space": "",
          "selfclose": case["selfclose"]}
    if case["dyn"]:
        el["stmts"]["attributes"] = case["dyn"]
    nodes = [["elem", el]]
    src = tmodel.serialize(nodes).text()
    if case["config"] in ("xml", "xml_explicit"):
        src = '<?xml version="1.0"?>' + src
    return el, src


def booleans_of(case):
    if case["config"] in ("xml", "empty"):
        return set()
    if case["config"] in ("explicit", "xml_explicit"):
        # a configured collection applies whatever the document type
        return set(EXPLICIT_BOOL)
    return set(HTML_BOOL)


def raw_static(parts, quote):
    out = tmodel.Source()
    tmodel._parts_src(out, parts, lambda s: tmodel.enc_attr(s, quote), "attr",
                      "'" if quote == '"' else '"')
    return out.text()


def bool_parts(it, parts, quote):
    """Truth of an interpolated boolean attribute: false values insert
    nothing, then any remaining text makes the attribute true."""
    text = ""
    for p in parts:
        if p[0] == "lit":
            text += p[1]
        else:
            v = it.eval(p[1])
            if v:
                text += tmodel.insert_text(v, "text", quote) or ""
    return bool(text)


def model(case, k6=False, k10=False):
    """Expected attributes: (ordered [(name, quote, value)], dict-supplied
    {name: value}).  k6 / k10 switch on the deviation models of the known
    findings."""
    env = values.env(case["bindings"])
    it = tmodel.Interp(env)
    bools = booleans_of(case)
    dyn = case["dyn"]
    # sources in statement order; a later source overrides an earlier one
    named = {}
    for pos, (n, e) in enumerate(dyn):
        if n is not None:
            named[n.lower()] = (pos, n, e)
    dict_pos = [pos for pos, (n, e) in enumerate(dyn) if n is None]
    dicts = {pos: it.eval(dyn[pos][1]) for pos in dict_pos}

    def overridden_by_dict(name, after):
        """Is ``name`` supplied by a dictionary entry that comes after
        statement position ``after`` (-1 = the static attribute)?"""
        return any(pos > after and name in d for pos, d in dicts.items())

    ordered = []
    static_names = set()
    for space, aname, quote, parts in case["statics"]:
        static_names.add(aname.lower())
        has_interp = any(p[0] == "interp" for p in parts)
        ov = named.get(aname.lower())
        if ov is not None:
            pos, n, e = ov
            after = -1 if k6 else pos
            if overridden_by_dict(n, after):
                continue
            # a computed value stands in quotes, however the static
            # attribute was written; an attribute written without a value
            # that gets an empty one stays as it was
            written, quote = quote, quote or '"'
            v = it.eval(e, with_default=True)
            if v is X.DEFAULT:
                if has_interp and not k10:
                    if n in bools:
                        val = n if bool_parts(it, parts, quote) else None
                    else:
                        val = it.parts_value(parts, quote)
                elif has_interp:
                    val = raw_static(parts, quote)
                else:
                    val = "".join(p[1] for p in parts)
            elif n in bools:
                val = n if v else None
            else:
                val = tmodel.insert_text(v, "text", quote)
            if val is not None:
                if written is None and val == "":
                    ordered.append((n, None, None))
                else:
                    ordered.append((n, quote, val))
            continue
        if overridden_by_dict(aname, -1):
            continue
        if quote is None:
            ordered.append((aname, None, None))
            continue
        if has_interp:
            if aname in bools:
                val = aname if bool_parts(it, parts, quote) else None
            else:
                val = it.parts_value(parts, quote)
        else:
            val = "".join(p[1] for p in parts)
        if val is not None:
            ordered.append((aname, quote, val))
    supplied = {}
    for pos, (n, e) in enumerate(dyn):
        if n is None:
            for k, v in dicts[pos].items():
                # a later named entry or a later dictionary overrides
                # (named entries that differ only by case are ONE entry,
                # standing where the first stands and spelled like the last:
                # only that spelling is compared with dictionary keys - the
                # property does not say how two spellings in one statement
                # relate to a dictionary key)
                later_named = any(
                    min(p3 for p3, (n3, _e3) in enumerate(dyn)
                        if n3 is not None and n3.lower() == n2.lower()) > pos
                    and named[n2.lower()][1] == k
                    for p2, (n2, _e) in enumerate(dyn) if n2 is not None)
                if k6:
                    # positional rule of the implementation: only entries
                    # that are *appended after* the dictionary count
                    later_named = later_named and k.lower() not in \
                        static_names
                if later_named or overridden_by_dict(k, pos):
                    continue
                if k in bools:
                    if not v:
                        continue
                    v = k
                if v is None:
                    continue
                supplied[k] = tmodel.insert_text(v, "text", '"')
            continue
        if n.lower() in static_names:
            continue
        first = min(p2 for p2, (n2, _e) in enumerate(dyn)
                    if n2 is not None and n2.lower() == n.lower())
        if pos != first:
            continue
        # entries whose names differ only by case are one attribute: it
        # stands where the first one stands and takes the last one's name
        # and value (char.)
        lpos, n, e = named[n.lower()]
        # (K6: ... and the merged entry also keeps the first one's place in
        # the positional override order)
        if overridden_by_dict(n, first if k6 else lpos):
            continue
        v = it.eval(e, with_default=True)
        if n in bools:
            val = None if v is X.DEFAULT else (n if v else None)
        elif v is X.DEFAULT:
            val = None
        else:
            val = tmodel.insert_text(v, "text", '"')
        if val is not None:
            ordered.append((n, '"', val))
    return ordered, supplied


class Attributes(Part):
    name = "attrs"
    examples = {"quick": 2500, "thorough": 80000}
    floors = {"override": 0.2, "dict": 0.2, "boolean": 0.2}

    def strategy(self, tier):
        return cases()

    def _flags(self, case):
        statics = {a[1].lower() for a in case["statics"]}
        named = [d[0] for d in case["dyn"] if d[0]]
        bools = booleans_of(case)
        return {
            "override": any(n.lower() in statics for n in named),
            "dict": any(d[0] is None for d in case["dyn"]),
            "boolean": any(n in bools for n in named + [a[1] for a in
                                                         case["statics"]]),
        }

    def nontrivial(self, case):
        f = self._flags(case)
        return f["override"] or f["dict"] or f["boolean"]

    def labels(self, case):
        for k, v in self._flags(case).items():
            if v:
                yield k
        yield "cfg_" + case["config"]

    def sample(self, case):
        return {"source": build(case)[1], "bindings": case["bindings"],
                "config": case["config"]}

    def observe(self, case):
        from chameleon import PageTemplate
        el, src = build(case)
        cfg = {}
        if case["config"] in ("explicit", "xml_explicit"):
            cfg["boolean_attributes"] = set(EXPLICIT_BOOL)
        elif case["config"] == "empty":
            # an explicitly empty collection: no boolean attributes at all
            cfg["boolean_attributes"] = [set(), frozenset(), (), []][
                len(case["statics"]) % 4]
        o = run(PageTemplate, src, **cfg)
        if not o.ok:
            return src, ("compile-exc", o.exc_name, o.brief())
        o = run(o.value.render, **values.env(case["bindings"]))
        if not o.ok:
            return src, ("exc", o.exc_name, o.brief())
        toks = [t for t in reader.scan(o.value) if t[0] == "start"]
        if len(toks) != 1:
            return src, ("unreadable", o.value)
        return src, ("attrs", [tuple(a) for a in toks[0][2]], o.value)

    def compare(self, got_attrs, exp):
        ordered, supplied = exp
        names = [a[0] for a in got_attrs]
        if len(names) != len(set(names)):
            return "duplicate attribute"
        rest = [a for a in got_attrs if a[0] not in supplied]
        got_sup = {a[0]: a[2] for a in got_attrs if a[0] in supplied}
        if [tuple(a) for a in rest] != [tuple(a) for a in ordered]:
            return "static/named attributes differ"
        if got_sup != supplied:
            return "dictionary attributes differ"
        if any(a[1] != '"' for a in got_attrs if a[0] in supplied):
            return "dictionary attribute quoting"
        return None

    def oracle(self, case):
        src, got = self.observe(case)
        try:
            exp = model(case)
        except tmodel.ModelRaises as m:
            exp = ("exc", type(m.exc).__name__)
        detail = {"source": src, "bindings": case["bindings"],
                  "config": case["config"], "got": got[:2] if got[0] !=
                  "attrs" else got[1:], "expected": exp}
        if isinstance(exp, tuple) and exp and exp[0] == "exc":
            if got[0] == "exc" and got[1] == exp[1]:
                return None
            return Mismatch("attrs:expected exception", detail)
        if got[0] != "attrs":
            return Mismatch("attrs:%s %s" % (got[0], got[1] if got[0] !=
                                             "unreadable" else ""), detail)
        why = self.compare(got[1], exp)
        if why is None:
            return None
        for dev, key in ((dict(k6=True), "K6"), (dict(k10=True), "K10"),
                         (dict(k6=True, k10=True), "K6")):
            try:
                if self.compare(got[1], model(case, **dev)) is None:
                    return Mismatch("attrs:" + key, detail)
            except tmodel.ModelRaises:
                pass
        return Mismatch("attrs:" + why, detail)

    def known(self, case, mismatch):
        return {"attrs:K6": "K6", "attrs:K10": "K10"}.get(mismatch.bucket)


CHECK = Check(
    "C07", "exploration",
    rule=("one element x 0..5 static attributes (mixed case, both quotes, "
          "with/without ${}) x 0..5 tal:attributes entries (named, "
          "dictionary, overlapping names in different case, ';;' and entity "
          "escapes, default / nothing / pipes / string:) x 17 value kinds x "
          "{HTML default booleans, explicit set, XML}; non-trivial = a "
          "dynamic entry targets a static name, or a dictionary entry is "
          "present, or a boolean name is involved; distinct by sha1"),
    parts=[Attributes()],
    assumptions=[
        "dictionary keys match attribute names exactly (case variants of one "
        "name supplied by a dictionary are not generated)",
        "the position of dictionary-supplied attributes is not asserted",
        "K6 / K10 are attributed only when the corresponding deviation model "
        "reproduces the observed attribute list exactly",
    ],
    technique="Hypothesis generation of attribute merges + reference merge "
              "model + independent tag reader",
)
