"""C16 - File templates follow their files; the loader resolves names
predictably.

A Hypothesis rule-based state machine drives a scratch tree of 3 search
directories and 3 file names.  Operations (all executed by ``Sim`` so that a
failing history can be replayed without Hypothesis):

  write(dir, name, version, mtime)   body from a pool of versions that differ
                                     in output, macro set and XML/HTML type;
                                     mtime set with os.utime (may move
                                     BACKWARDS; always differs from the
                                     file's previous mtime)
  touch(dir, name, mtime)            new mtime, same content
  render / macros / use_macro / content_type   on a PageTemplateFile
                                     (auto_reload on) created once per file
  render_noreload                    on an instance without auto_reload
  load(name)                         through PageTemplateLoader (auto_reload
                                     on/off, default_extension set/unset):
                                     relative / dotted / dot-less / absolute
                                     / space-padded names
  use_load(dir, name)                renders a file template containing
                                     metal:use-macro="load: other.pt" where
                                     other.pt exists next to it AND in an
                                     earlier search directory

Model: dict path -> (version, mtime) and the search path.  After every
operation: output == output of a freshly compiled *string* template of the
latest version; macros.names == that version's macro names exactly; macros
of earlier versions raise KeyError; content_type of that version; cook
count unchanged while the mtime is unchanged (never more than one without
auto_reload); loader result == first match along the search path, same
object for the same name, ValueError when nothing matches; load: resolves
next to the including template first.
"""
from __future__ import annotations

import json
import os
import shutil
import tempfile

from vlib.harness import Check, Mismatch, Part, Stage

NAMES = ["n0", "n1", "n2"]
DIRS = ["d0", "d1", "d2"]
MACROS = ["mA", "mB", "mC"]


def body_of(version):
    """version = [k, macro subset bitmask, xml?]"""
    k, mask, xml = version
    if k == 0:
        # a version that does not compile (mask selects the kind of error)
        return ['<html><b>unclosed</i></html>',
                '<html><p tal:content="1 +">x</p></html>',
                '<html><p tal:define="x">x</p></html>',
                '<html><p tal:nosuch="1">x</p></html>'][mask % 4]
    parts = []
    if xml:
        parts.append('<?xml version="1.0"?>\n')
    parts.append("<html>")
    for i, m in enumerate(MACROS):
        if mask & (1 << i):
            parts.append('<b metal:define-macro="%s">%s%d</b>' % (m, m, k))
    parts.append(' body%d <u tal:attributes="checked flag"/>\r\n</html>' % k)
    return "".join(parts)


def broken(version):
    return version[0] == 0


def macro_names(version):
    if broken(version):
        return []
    return sorted(m for i, m in enumerate(MACROS) if version[1] & (1 << i))


class Violation(Exception):
    pass


class Sim:
    def __init__(self, root):
        self.root = root
        for d in DIRS:
            os.makedirs(os.path.join(root, d))
        self.files = {}          # path -> [version, mtime]
        self.tmpl = {}           # path -> counting template (auto_reload)
        self.tmpl_noreload = {}  # path -> (template, version at creation)
        self.cooks = {}          # path -> (cook count, mtime at that count)
        self.loaders = {}
        self.loaded = {}         # (loader key, name) -> template
        self.n_reload_checks = 0
        self.lastread = {}       # path -> mtime when a template last read it
        self.pages = {}          # pages that use load: (kept between uses)
        self.users = {}

    # -- helpers -----------------------------------------------------------
    def path(self, d, n):
        return os.path.join(self.root, DIRS[d], NAMES[n] + ".pt")

    def fresh(self, version, **kw):
        from chameleon import PageTemplate
        return PageTemplate(body_of(version)).render(flag=True, **kw)

    def tclass(self):
        from chameleon import PageTemplateFile

        class Counting(PageTemplateFile):
            n_cooks = 0

            def cook(self, body):
                self.n_cooks += 1
                return super().cook(body)
        return Counting

    def get_tmpl(self, p):
        if p not in self.tmpl:
            self.tmpl[p] = self.tclass()(p, auto_reload=True)
        return self.tmpl[p]

    def fresh_mtime(self, p, mtime):
        """A modification is only detectable through a changed mtime: the
        new value differs from the file's current mtime and from the mtime
        it had when a template last read it (precondition of the
        property, by design of mtime-based reloading)."""
        avoid = {self.lastread.get(p)}
        if p in self.files:
            avoid.add(self.files[p][1])
        while mtime in avoid:
            mtime += 1
        return mtime

    def check_cooks(self, p, t):
        """No recompilation while the file's mtime is unchanged."""
        cur = self.files[p][1]
        self.lastread[p] = cur
        prev = self.cooks.get(p)
        if prev is not None and prev[1] == cur and t.n_cooks != prev[0]:
            raise Violation("recompiled although the file is unchanged "
                            "(%d -> %d cooks)" % (prev[0], t.n_cooks))
        self.cooks[p] = (t.n_cooks, cur)

    # -- operations --------------------------------------------------------
    def apply(self, op):
        try:
            return getattr(self, "op_" + op[0])(*op[1:])
        except Violation:
            raise
        except Exception as e:  # noqa: BLE001 - raised by the code under test
            raise Violation("%s raised %s: %s" % (
                op[0], type(e).__name__, str(e)[:200]))

    def op_write(self, d, n, version, mtime):
        p = self.path(d, n)
        mtime = self.fresh_mtime(p, mtime)
        with open(p, "w", encoding="utf-8", newline="") as f:
            f.write(body_of(version))
        os.utime(p, (mtime, mtime))
        self.files[p] = [version, mtime]
        # (cook counts are compared between reads that have no modification
        # between them - the file may come back to an earlier time stamp)
        self.cooks.pop(p, None)

    def op_touch(self, d, n, mtime):
        p = self.path(d, n)
        if p not in self.files:
            return
        mtime = self.fresh_mtime(p, mtime)
        os.utime(p, (mtime, mtime))
        self.files[p][1] = mtime
        self.cooks.pop(p, None)

    def op_render(self, d, n):
        p = self.path(d, n)
        if p not in self.files:
            return
        t = self.get_tmpl(p)
        if broken(self.files[p][0]):
            self.expect_failure(p, lambda: t.render(flag=True), "render")
            return
        got = t.render(flag=True)
        want = self.fresh(self.files[p][0])
        if got != want:
            raise Violation("render gives %r, latest version gives %r" % (
                got, want))
        self.check_cooks(p, t)
        ct = "text/xml" if self.files[p][0][2] else "text/html"
        if t.content_type != ct:
            raise Violation("content_type %r, latest version is %r" % (
                t.content_type, ct))

    def expect_failure(self, p, fn, what):
        """The latest version of the file does not compile: using the
        template must fail the way a string template of that version does
        (and never serve anything of an earlier version)."""
        from chameleon import PageTemplate
        self.lastread[p] = self.files[p][1]
        self.cooks.pop(p, None)
        try:
            PageTemplate(body_of(self.files[p][0]))
        except Exception as e:  # noqa: BLE001
            want = type(e).__name__
        else:
            raise AssertionError("broken version compiles")
        try:
            got = fn()
        except Exception as e:  # noqa: BLE001
            if type(e).__name__ != want:
                raise Violation("%s of a version that does not compile "
                                "raised %s, a string template raises %s" % (
                                    what, type(e).__name__, want))
            return
        raise Violation("%s of a version that does not compile (%s) gave %r"
                        % (what, want, got))

    def op_macros(self, d, n):
        p = self.path(d, n)
        if p not in self.files:
            return
        t = self.get_tmpl(p)
        if broken(self.files[p][0]):
            self.expect_failure(p, lambda: sorted(t.macros.names), "macros")
            return
        got = sorted(t.macros.names)
        want = macro_names(self.files[p][0])
        if got != want:
            raise Violation("macros.names %r, latest version has %r" % (
                got, want))
        self.check_cooks(p, t)

    def op_use_macro(self, d, n, m):
        from chameleon import PageTemplate
        p = self.path(d, n)
        if p not in self.files:
            return
        t = self.get_tmpl(p)
        name = MACROS[m]
        version = self.files[p][0]
        user = PageTemplate('<x metal:use-macro="t.macros[\'%s\']"/>' % name)
        if broken(version):
            self.expect_failure(p, lambda: user.render(t=t), "use_macro")
            return
        if name in macro_names(version):
            got = user.render(t=t)
            want = "<b>%s%d</b>" % (name, version[0])
            if got != want:
                raise Violation("macro %s renders %r, latest version gives "
                                "%r" % (name, got, want))
        else:
            try:
                got = user.render(t=t)
            except KeyError:
                pass
            else:
                raise Violation("macro %s of an earlier version still "
                                "renders %r" % (name, got))
        self.check_cooks(p, t)

    def op_render_noreload(self, d, n):
        p = self.path(d, n)
        if p not in self.files:
            return
        if p not in self.tmpl_noreload and broken(self.files[p][0]):
            return
        if p not in self.tmpl_noreload:
            t = self.tclass()(p, auto_reload=False)
            self.tmpl_noreload[p] = (t, list(self.files[p][0]))
        t, version = self.tmpl_noreload[p]
        first = t.n_cooks == 0
        if first and broken(self.files[p][0]):
            return
        got = t.render(flag=True)
        if first:
            # compiled lazily now: it shows the version present now
            version = list(self.files[p][0])
            self.tmpl_noreload[p] = (t, version)
        if t.n_cooks > 1:
            raise Violation("template without auto_reload compiled %d times"
                            % t.n_cooks)
        want = self.fresh(version)
        if got != want:
            raise Violation("no-reload render gives %r, expected %r" % (
                got, want))

    def loader(self, auto_reload, ext):
        from chameleon import PageTemplateLoader
        key = (auto_reload, ext)
        if key not in self.loaders:
            kw = {"auto_reload": auto_reload}
            if ext:
                kw["default_extension"] = ext
            self.loaders[key] = PageTemplateLoader(
                search_path=[os.path.join(self.root, d) for d in DIRS], **kw)
        return key, self.loaders[key]

    def op_load(self, n, form, auto_reload, ext, fmt=None):
        """form: 'ext' n0.pt | 'bare' n0 | 'abs' absolute | 'pad' ' n0.pt '
        | 'dotted' n0.v2.pt (never exists); fmt: None | 'xml' | 'text' (the
        kind of template asked for: the same name in another format is
        another template)"""
        key, loader = self.loader(auto_reload, ext)
        key = key + (("text" if fmt == "text" else "xml"),)
        base = NAMES[n]
        if form == "ext":
            spec, fname = base + ".pt", base + ".pt"
        elif form == "bare":
            spec = base
            fname = base + "." + ext.lstrip(".") if ext else base
        elif form == "pad":
            spec, fname = "  " + base + ".pt ", base + ".pt"
        elif form == "dotted":
            spec, fname = base + ".v2", base + ".v2"
        else:
            existing = [p for p in sorted(self.files)
                        if p.endswith(os.sep + base + ".pt")]
            if not existing:
                return
            spec, fname = existing[-1], None
        cached = self.loaded.get((key, spec))
        if cached is not None:
            # (the model keeps no reference of its own: it is the loader
            # that has to keep the instance)
            cached = cached()
            if cached is None:
                raise Violation("load(%r): the loader no longer has the "
                                "instance it returned earlier" % spec)
        if fname is None:
            want = spec
        else:
            want = None
            for d in DIRS:
                cand = os.path.join(self.root, d, fname)
                if os.path.exists(cand):
                    want = cand
                    break
        try:
            t = loader.load(spec) if fmt is None else loader.load(spec, fmt)
        except ValueError:
            if cached is not None:
                raise Violation("load(%r) raised ValueError after it had "
                                "returned a template" % spec)
            if want is not None:
                raise Violation("load(%r) raised ValueError, %s exists" % (
                    spec, want))
            return
        from chameleon import PageTemplateFile, PageTextTemplateFile
        wanted_cls = PageTextTemplateFile if fmt == "text" \
            else PageTemplateFile
        if type(t) is not wanted_cls:
            raise Violation("load(%r, %r) returned a %s" % (
                spec, fmt, type(t).__name__))
        if cached is not None:
            if t is not cached:
                raise Violation("load(%r) returned a different instance" %
                                spec)
            return
        if want is None:
            raise Violation("load(%r) found %s, the model finds nothing" % (
                spec, t.filename))
        if os.path.realpath(str(t.filename)) != os.path.realpath(want):
            raise Violation("load(%r) resolved to %s, first match on the "
                            "search path is %s" % (spec, t.filename, want))
        import weakref
        self.loaded[(key, spec)] = weakref.ref(t)

    def op_use_load(self, d, n, other, via_loader):
        """A page in directory d uses metal:use-macro="load: <other>.pt";
        <other>.pt must be taken from d even if an earlier directory has
        one as well."""
        from chameleon import PageTemplateFile
        if d == 0 or n == other:
            return
        sib = self.path(d, other)
        early = self.path(0, other)
        # (the file next to the page and its namesake in the first search
        # directory are created when they do not exist yet)
        if early not in self.files:
            self.op_write(0, other, [1, 0, False], 1_000_000_001)
        if sib not in self.files:
            self.op_write(d, other, [2, 0, False], 1_000_000_002)
        if broken(self.files[sib][0]) or broken(self.files[early][0]):
            return
        page = os.path.join(self.root, DIRS[d], "page%d_%d_%d.pt" % (d, n, other))
        # (the page is kept: a later use renders the same page object after
        # the file it loads may have been rewritten)
        t = self.pages.get((page, via_loader))
        if t is None:
            with open(page, "w") as f:
                f.write('<div metal:use-macro="load: %s.pt">x</div>' %
                        NAMES[other])
            if via_loader:
                key, loader = self.loader(True, None)
                t = loader.load(os.path.basename(page))
            else:
                t = PageTemplateFile(page, auto_reload=True, search_path=[
                    os.path.join(self.root, x) for x in DIRS])
            self.pages[(page, via_loader)] = t
        self.lastread[sib] = self.files[sib][1]
        got = t.render(flag=True)
        want = self.fresh(self.files[sib][0], macroname="x")
        wrong = self.fresh(self.files[early][0])
        if got != want:
            raise Violation(
                "load: inside %s resolved to %s" % (
                    page, "the earlier search directory" if got == wrong
                    else "something else: %r (expected %r)" % (got, want)))


    def op_collect(self):
        """A garbage collection (what the program does not hold on to may
        go - what the loader has handed out it has to keep)."""
        import gc
        gc.collect()

    def op_use_whole(self, d, n):
        """The template object itself (not one of its macros) is the target
        of metal:use-macro: the latest version must be included."""
        from chameleon import PageTemplate
        p = self.path(d, n)
        if p not in self.files:
            return
        t = self.get_tmpl(p)
        if "whole" not in self.users:
            self.users["whole"] = PageTemplate(
                '<x metal:use-macro="t">y</x>')
        user = self.users["whole"]
        version = self.files[p][0]
        if broken(version):
            self.expect_failure(p, lambda: user.render(t=t, flag=True),
                                "use of the whole template")
            return
        got = user.render(t=t, flag=True)
        want = self.fresh(version, macroname="t")
        if got != want:
            raise Violation("whole-template use gives %r, latest version "
                            "gives %r" % (got, want))
        self.check_cooks(p, t)

    def op_load_dotdir(self, d, n, form, auto_reload, ext):
        """Names whose only dot is in a directory part: they have a dot, so
        no default extension is added."""
        sub = os.path.join(self.root, DIRS[d], "rel.2")
        os.makedirs(sub, exist_ok=True)
        base = NAMES[n]
        for fn, text in ((base, "<p>plain %s</p>" % base),
                         (base + ".pt", "<p>pt %s</p>" % base)):
            fp = os.path.join(sub, fn)
            if not os.path.exists(fp):
                with open(fp, "w") as f:
                    f.write(text)
        key, loader = self.loader(auto_reload, ext)
        if form == "rel":
            spec = "rel.2/" + base
        elif form == "dot":
            spec = "./rel.2/" + base
        else:
            spec = os.path.join(sub, base)
        want = None
        if form == "abs":
            want = spec
        else:
            for dd in DIRS:
                cand = os.path.join(self.root, dd, "rel.2", base)
                if os.path.exists(cand):
                    want = cand
                    break
        t = loader.load(spec)
        cached = self.loaded.get((key, spec))
        if cached is not None:
            cached = cached()
            if cached is None:
                raise Violation("load(%r): the loader no longer has the "
                                "instance it returned earlier" % spec)
            if t is not cached:
                raise Violation("load(%r) returned a different instance" %
                                spec)
            return
        import weakref
        self.loaded[(key, spec)] = weakref.ref(t)
        if os.path.realpath(str(t.filename)) != os.path.realpath(want):
            raise Violation("load(%r) resolved to %s, expected %s (the name "
                            "has a dot: no extension is added)" % (
                                spec, t.filename, want))
        got = t.render()
        if got != "<p>plain %s</p>" % base:
            raise Violation("load(%r) renders %r" % (spec, got))


def run_ops(ops):
    """Replay a history; returns None or a violation message."""
    root = tempfile.mkdtemp(prefix="c16-")
    try:
        sim = Sim(root)
        for i, op in enumerate(ops):
            try:
                sim.apply(op)
            except Violation as v:
                return "step %d %r: %s" % (i, op, v)
        return None
    finally:
        shutil.rmtree(root, ignore_errors=True)


def bucket_of(message):
    """Stable class of a violation: operation + first words of the text."""
    import re
    m = re.match(r"step \d+ \['(\w+)'.*?\]: (.*)", message, re.S)
    if not m:
        return "history:" + message[:40]
    words = re.sub(r"[^A-Za-z: ]", " ", m.group(2)).split()[:5]
    return "history:%s %s" % (m.group(1), " ".join(words))


def minimise(ops):
    ops = list(ops)
    if run_ops(ops) is None:
        return ops
    changed = True
    while changed:
        changed = False
        for i in range(len(ops) - 1, -1, -1):
            cand = ops[:i] + ops[i + 1:]
            if cand and run_ops(cand) is not None:
                ops = cand
                changed = True
    return ops


class Machine(Stage):
    name = "history"

    def oracle(self, case):
        msg = run_ops(case["ops"])
        if msg is None:
            return None
        return Mismatch(bucket_of(msg), {"ops": case["ops"],
                                         "message": msg})

    def run(self, tier, seed, check):
        import multiprocessing
        from vlib.harness import NCPU
        n = 1600 if tier == "quick" else 40000
        steps = 30 if tier == "quick" else 50
        shards = NCPU
        ctx = multiprocessing.get_context("fork")
        with ctx.Pool(shards) as pool:
            res = pool.map(campaign, [(seed * 1000 + i, n // shards, steps)
                                      for i in range(shards)])
        out = {"evaluations": 0, "nontrivial_ids": set(), "failures": [],
               "samples": [], "labels": {}, "info": {"machines": 0}}
        for r in res:
            out["evaluations"] += r["steps"]
            out["nontrivial_ids"].update(r["nontrivial"])
            out["info"]["machines"] += r["machines"]
            for k, v in r["ops"].items():
                out["labels"][k] = out["labels"].get(k, 0) + v
            out["samples"].extend(r["samples"][:1])
            for info in r["failures"]:
                out["failures"].append(({"ops": info["ops"]}, Mismatch(
                    bucket_of(info["message"]), info)))
        out["nontrivial_ids"] = sorted(out["nontrivial_ids"])
        out["samples"] = out["samples"][:3] or [{"ops": "none"}]
        return out


def campaign(args):
    """One shard of state-machine runs (own process)."""
    seed, n, steps = args
    import hypothesis
    from hypothesis import HealthCheck, settings, strategies as st
    from hypothesis.stateful import (RuleBasedStateMachine, rule,
                                     run_state_machine_as_test)
    stats = {"machines": 0, "steps": 0, "nontrivial": set(), "ops": {},
             "failures": [], "samples": [], "found": []}
    versions = st.tuples(st.sampled_from([0] + list(range(1, 10)) * 2),
                         st.integers(0, 7), st.booleans()).map(list)
    # (the epoch itself is a time stamp like any other: archives and
    # reproducible builds zero them)
    mtimes = st.one_of(st.integers(1_000_000_000, 1_000_000_040),
                       st.integers(1_000_000_000, 1_000_000_040),
                       st.sampled_from([0, 1, 2]))
    # biased so that histories keep coming back to the same file
    D = st.sampled_from([0, 1, 1, 1, 2])
    N = st.sampled_from([0, 0, 0, 1, 2])

    class M(RuleBasedStateMachine):
        def __init__(self):
            super().__init__()
            stats["machines"] += 1
            self.root = tempfile.mkdtemp(prefix="c16-")
            self.sim = Sim(self.root)
            self.ops = []
            self.rewritten = set()
            self.interesting = False

        def do(self, *op):
            if stats["found"]:
                return          # (a finding is kept; the rest is skipped)
            op = list(op)
            self.ops.append(op)
            stats["steps"] += 1
            stats["ops"][op[0]] = stats["ops"].get(op[0], 0) + 1
            try:
                self.sim.apply(op)
            except Violation as v:
                # recorded, not raised: nothing is replayed by the library
                # (a finding may depend on when the garbage collector ran)
                stats["found"].append({"ops": list(self.ops),
                                       "message": str(v)})

        @rule(d=D, n=N, v=versions, t=mtimes)
        def write(self, d, n, v, t):
            p = self.sim.path(d, n)
            if p in self.sim.files and p in self.sim.tmpl:
                self.rewritten.add(p)
            self.do("write", d, n, v, t)

        @rule(d=D, n=N, t=mtimes)
        def touch(self, d, n, t):
            self.do("touch", d, n, t)

        @rule(d=D, n=N)
        def render(self, d, n):
            if self.sim.path(d, n) in self.rewritten:
                self.interesting = True
            self.do("render", d, n)

        @rule(d=D, n=N)
        def macros(self, d, n):
            if self.sim.path(d, n) in self.rewritten:
                self.interesting = True
            self.do("macros", d, n)

        @rule(d=D, n=N, m=st.integers(0, 2))
        def use_macro(self, d, n, m):
            self.do("use_macro", d, n, m)

        @rule(d=D, n=N)
        def render_noreload(self, d, n):
            self.do("render_noreload", d, n)

        @rule(n=N, form=st.sampled_from(["ext", "bare", "abs", "pad",
                                         "dotted"]),
              ar=st.booleans(), ext=st.sampled_from([None, ".pt", "pt"]),
              fmt=st.sampled_from([None, None, "xml", "text", "text"]))
        def load(self, n, form, ar, ext, fmt):
            self.do("load", n, form, ar, ext, fmt)

        @rule(d=D, n=N, other=N, via=st.booleans())
        def use_load(self, d, n, other, via):
            self.do("use_load", d, n, other, via)

        @rule()
        def collect(self):
            self.do("collect")

        @rule(d=D, n=N)
        def use_whole(self, d, n):
            if self.sim.path(d, n) in self.rewritten:
                self.interesting = True
            self.do("use_whole", d, n)

        @rule(d=D, n=N, form=st.sampled_from(["rel", "dot", "abs"]),
              ar=st.booleans(), ext=st.sampled_from([None, ".pt", "pt"]))
        def load_dotdir(self, d, n, form, ar, ext):
            self.do("load_dotdir", d, n, form, ar, ext)

        def teardown(self):
            if self.interesting:
                stats["nontrivial"].add(json.dumps(self.ops))
                if len(stats["samples"]) < 2:
                    stats["samples"].append({"ops": self.ops[:25]})
            shutil.rmtree(self.root, ignore_errors=True)

    run_state_machine_as_test(
        hypothesis.seed(seed)(M),
        settings=settings(max_examples=n, stateful_step_count=steps,
                          deadline=None, database=None,
                          report_multiple_bugs=False,
                          phases=[hypothesis.Phase.generate],
                          suppress_health_check=list(HealthCheck)))
    for info in stats.pop("found")[:1]:
        # Hypothesis' shrinker is slow on file-system machines: minimise
        # the history ourselves by dropping operations while it still fails
        if run_ops(info["ops"]) is not None:
            info["ops"] = minimise(info["ops"])
            info["message"] = run_ops(info["ops"]) or info["message"]
        else:
            info["note"] = "seen once; does not repeat when the history " \
                "is replayed (timing dependent)"
        stats["failures"].append(info)
    stats["nontrivial"] = sorted(stats["nontrivial"])
    return stats


# -- package-relative specs --------------------------------------------------

PKG_MAIN = ('<div tal:define="part load: part.pt">[<span '
            'metal:use-macro="part" />]</div>')


class PackageSpecs(Part):
    """Templates named by a package-relative spec (pkg:main.pt,
    pkg:sub/main.pt, PageTemplateFile(name, package_name=...)) or by path:
    a load: expression inside them looks next to the template first, then
    along the search path; the package-relative template renders like the
    file it names."""
    name = "packagespecs"
    examples = {"quick": 150, "thorough": 3000}
    # (a finite space - 336 combinations - of which 1 in 7 is of this kind)
    floors = {"package_top": 0.08}

    def strategy(self, tier):
        from hypothesis import strategies as st
        return st.fixed_dictionaries({
            # where the template lives inside the package
            "where": st.sampled_from(["top", "top", "sub", "sub/deep"]),
            # how it is opened
            "how": st.sampled_from(["loader_spec", "loader_spec",
                                    "file_package", "file_package_sp",
                                    "loader_path", "file_path",
                                    # a file name relative to the working
                                    # directory, which is another one by
                                    # the time the template is used
                                    "file_relative"]),
            # is there a part.pt next to it / in the other places
            "sibling": st.booleans(),
            "in_other": st.booleans(),
            "in_top": st.booleans(),
            "auto_reload": st.booleans(),
        })

    def labels(self, case):
        if case["where"] == "top" and case["how"] in (
                "loader_spec", "file_package", "file_package_sp"):
            yield "package_top"
        yield "how_" + case["how"]

    def nontrivial(self, case):
        return case["sibling"] and (case["in_other"] or case["in_top"])

    def setup_shard(self, tier, shard):
        import sys
        self.tmp = tempfile.mkdtemp(prefix="c16-pkg-")
        sys.path.insert(0, self.tmp)
        self.n = 0

    def teardown_shard(self):
        import sys
        tmp = getattr(self, "tmp", None)
        if tmp:
            if tmp in sys.path:
                sys.path.remove(tmp)
            shutil.rmtree(tmp, ignore_errors=True)

    def oracle(self, case):
        import importlib
        import sys
        from chameleon import PageTemplateFile
        from chameleon.zpt.loader import TemplateLoader
        from vlib.cham import run
        if not getattr(self, "tmp", None):
            self.setup_shard(None, 0)
        self.n += 1
        pkg = "c16pkg_%d_%d" % (os.getpid(), self.n)
        root = os.path.join(self.tmp, pkg)
        other = os.path.join(self.tmp, pkg + "_other")
        rel = "" if case["where"] == "top" else case["where"]
        home = os.path.join(root, rel)
        os.makedirs(home, exist_ok=True)
        os.makedirs(other)
        files = {os.path.join(root, "__init__.py"): "",
                 os.path.join(home, "main.pt"): PKG_MAIN}
        if case["sibling"]:
            files[os.path.join(home, "part.pt")] = "<b>next to it</b>"
        if case["in_other"]:
            files[os.path.join(other, "part.pt")] = "<b>other dir</b>"
        if case["in_top"] and case["where"] != "top":
            files[os.path.join(root, "part.pt")] = "<b>package top</b>"
        for path, text in files.items():
            with open(path, "w", encoding="utf-8") as f:
                f.write(text)
        importlib.invalidate_caches()
        spec = pkg + ":" + (rel + "/" if rel else "") + "main.pt"
        kw = {"auto_reload": case["auto_reload"]}
        how = case["how"]
        search = [other]
        if how == "loader_spec":
            make = lambda: TemplateLoader([other], **kw).load(spec)
        elif how == "file_package":
            make = lambda: PageTemplateFile(
                (rel + "/" if rel else "") + "main.pt", package_name=pkg,
                **kw)
            search = []
        elif how == "file_package_sp":
            make = lambda: PageTemplateFile(
                (rel + "/" if rel else "") + "main.pt", package_name=pkg,
                search_path=[other], **kw)
        elif how == "loader_path":
            make = lambda: TemplateLoader([other], **kw).load(
                os.path.join(home, "main.pt"))
        elif how == "file_relative":
            def make():
                cwd = os.getcwd()
                os.chdir(os.path.dirname(home) if rel else self.tmp)
                try:
                    t = PageTemplateFile(
                        os.path.join(os.path.basename(home.rstrip("/")),
                                     "main.pt"),
                        search_path=[other], **kw)
                    os.chdir(other)
                    t.cook_check()
                    t.render()
                    return t
                finally:
                    os.chdir(cwd)
        else:
            make = lambda: PageTemplateFile(
                os.path.join(home, "main.pt"), search_path=[other], **kw)
        if case["sibling"]:
            want = "<div>[<b>next to it</b>]</div>"
        elif case["in_other"] and search:
            want = "<div>[<b>other dir</b>]</div>"
        else:
            want = None           # nothing matches: an error, not a guess
        try:
            o = run(make)
            if o.ok:
                o = run(o.value.render)
            got = o.value if o.ok else "exc " + o.exc_name
            detail = {"case": case, "spec": spec, "got": got, "want": want}
            if want is None:
                if o.ok:
                    return Mismatch("packagespecs:found a part that is "
                                    "neither next to the template nor on "
                                    "the search path", detail)
                return None
            if got != want:
                return Mismatch("packagespecs:load: did not resolve next to "
                                "the template first (%s, %s)" % (
                                    how, case["where"]), dict(
                                    detail, outcome=None if o.ok
                                    else o.brief()))
            return None
        finally:
            for name in [m for m in sys.modules if m.split(".")[0] == pkg]:
                del sys.modules[name]
            shutil.rmtree(root, ignore_errors=True)
            shutil.rmtree(other, ignore_errors=True)


CHECK = Check(
    "C16", "exploration",
    rule=("rule-based state machine: histories of up to 30 (quick) / 50 "
          "(thorough) operations {write version, touch, render, list macros, "
          "use macro, render without reload, load name, use load:} over 3 "
          "files x 3 search directories, mtimes drawn from a 40-second window "
          "(may move backwards); non-trivial = the history renders a file "
          "after at least one rewrite of an existing file; distinct by the "
          "operation list; packagespecs: a template with a load: expression "
          "at the top / in a sub-directory of a fresh package, opened in 6 "
          "ways (package-relative spec through a loader, package_name "
          "option, path), with the loaded name present next to it / on the "
          "search path / at the package top or not"),
    parts=[PackageSpecs()],
    stages=[Machine()],
    assumptions=[
        "a rewrite always changes the file's mtime (a change that keeps the "
        "mtime is undetectable by design)",
        "the loader's instance cache is keyed by the name string as given",
    ],
    technique="Hypothesis stateful (rule-based) testing against a "
              "dictionary model of files, mtimes and search path",
)
