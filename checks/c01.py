"""C01 - TAL statements render with the language semantics, in one fixed
order.

Oracles
  model      vlib/tmodel.py reference interpreter: rendered text equal, same
             exception class if any.  Two statement orders inside the guard
             group are accepted (the implementation's, pinned by the golden
             files, and the one printed in docs/reference.rst); everything
             else is a violation.
  permute    the same element with its statement attributes written in a
             different order renders the identical text (all permutations in
             the thorough tier for elements with <= 4 statements).
"""
from __future__ import annotations

import itertools

from hypothesis import strategies as st

from vlib import tmodel, tstrat, values
from vlib.cham import run
from vlib.harness import Check, Mismatch, Part


def render_chameleon(source, env, **cfg):
    from chameleon import PageTemplate
    o = run(PageTemplate, source, **cfg)
    if not o.ok:
        return ("compile-exc", o.exc, None)
    t = o.value
    o = run(t.render, **env)
    if not o.ok:
        return ("exc", o.exc, None)
    return ("out", o.value, None)


def outcome_key(r):
    """Comparable summary of a run."""
    if r[0] == "out":
        return ("out", r[1])
    return (r[0], type(r[1]).__name__)


def model_outcome(nodes, bindings, order, **kw):
    env = values.env(bindings)
    r = tmodel.run_model(nodes, env, guard_order=order, **kw)
    if r[0] == "out":
        return ("out", r[1]), r[2]
    return ("exc", type(r[1]).__name__), r[2]


def elems(nodes):
    for n in nodes:
        if n[0] == "elem":
            yield n[1]
            yield from elems(n[1]["children"])


class Statements(Part):
    name = "stmts"
    examples = {"quick": 1500, "thorough": 40000}
    floors = {"multi2": 0.25, "multi3": 0.08}

    def strategy(self, tier):
        return tstrat.templates(depth=3 if tier == "quick" else 4,
                                local_probes=True)

    def source(self, case):
        return tmodel.serialize(case["nodes"]).text()

    def nontrivial(self, case):
        return any(len(e["stmts"]) >= 2 for e in elems(case["nodes"]))

    def labels(self, case):
        m = max([len(e["stmts"]) for e in elems(case["nodes"])] or [0])
        if m >= 2:
            yield "multi2"
        if m >= 3:
            yield "multi3"
        for e in elems(case["nodes"]):
            for k in e["stmts"]:
                yield "has_" + k
            break

    def sample(self, case):
        return {"source": self.source(case), "bindings": case["bindings"]}

    def chameleon(self, case, source=None):
        env = values.env(case["bindings"])
        log = []
        from vlib import exprs
        rec, boom = exprs.make_callables(log)
        env["rec"], env["boom"] = rec, boom
        r = render_chameleon(source or self.source(case), env)
        return outcome_key(r), log

    def oracle(self, case):
        src = self.source(case)
        got, log = self.chameleon(case, src)
        exp, mlog = model_outcome(case["nodes"], case["bindings"],
                                  tmodel.STMT_ORDER_IMPL)
        if got != exp:
            exp2, _ = model_outcome(case["nodes"], case["bindings"],
                                    tmodel.STMT_ORDER_DOCS)
            if got != exp2:
                kind = "stmts:%s vs %s" % (got[0], exp[0])
                if got[0] != "out":
                    kind += ":" + got[1]
                elif exp[0] != "out":
                    kind += ":" + exp[1]
                return Mismatch(kind, {
                    "source": src, "bindings": case["bindings"],
                    "got": got, "expected": exp})
        # permutation of the statement attributes: identical result
        for perm_src in self.permutations(case):
            g2, _ = self.chameleon(case, perm_src)
            if g2 != got:
                return Mismatch("stmts:attribute order changes result", {
                    "source": src, "permuted": perm_src,
                    "bindings": case["bindings"], "got": got,
                    "got_permuted": g2})
        return None

    def permutations(self, case, limit=2):
        """Sources of the same template with other statement orders."""
        import copy
        nodes = copy.deepcopy(case["nodes"])
        es = [e for e in elems(nodes) if len(e["stmts"]) >= 2]
        if not es:
            return
        base = [list(e.get("order") or [0]) for e in es]
        for k in range(1, limit + 1):
            for e, b in zip(es, base):
                n = len(e["stmts"])
                # rotate / reverse the insertion ranks
                e["order"] = [(b[j % len(b)] * (k + 1) + (n - j) * k) % 7
                              for j in range(n)]
            yield tmodel.serialize(nodes).text()


# -- the same statement text on nested elements ----------------------------

SHADOW_NAMES = ["l0", "l1", "i0"]
SHADOW_DEFINES = [
    [["local", ["l0"], ["const", "1"]]],
    [["local", ["l0"], ["const", "2"]]],
    [["local", ["l0"], ["var", "s0"]]],
    [["local", ["l0"], ["const", "1"]], ["local", ["l1"], ["var", "l0"]]],
    [["local", ["l1"], ["const", "'b'"]]],
    [["local", ["l0", "l1"], ["const", "(1, 2)"]]],
    [["local", ["i0"], ["const", "'d'"]]],
]
SHADOW_REPEATS = [
    [["i0"], ["const", "(1, 2)"]],
    [["i0"], ["var", "q0"]],
    [["i0"], ["const", "'ab'"]],
    [["l0"], ["const", "(1, 2)"]],
    [["i0", "l1"], ["const", "[(1, 2), (3, 4)]"]],
]


@st.composite
def shadow_templates(draw, depth):
    """Chains of nested elements whose tal:define / tal:repeat statements
    are taken from a small pool of texts - so that the very same text sits
    on an element and on one of its descendants - with every name probed
    before, inside and after each element.  (No global definitions: a
    global made under a local of the same name is C05's known finding K4.)"""
    import copy

    def probes():
        names = draw(st.lists(st.sampled_from(SHADOW_NAMES), min_size=1,
                              max_size=3, unique=True))
        parts = []
        for n in names:
            parts.append(["lit", "[" + n + "="])
            parts.append(["interp", ["pipe", [["var", n],
                                              ["const", "'-'"]]]])
            parts.append(["lit", "]"])
        return ["text", parts]

    def elem(level):
        stmts = {}
        c = draw(st.integers(0, 3))
        if c in (0, 2):
            stmts["define"] = copy.deepcopy(
                draw(st.sampled_from(SHADOW_DEFINES)))
        if c in (1, 2):
            stmts["repeat"] = copy.deepcopy(
                draw(st.sampled_from(SHADOW_REPEATS)))
        if c == 3:
            stmts["condition"] = ["const", draw(st.sampled_from(
                ["True", "True", "False"]))]
        kids = [probes()]
        if level < depth:
            for _ in range(draw(st.integers(1, 2))):
                kids.append(["elem", elem(level + 1)])
                kids.append(probes())
        return {"name": draw(st.sampled_from(["div", "p", "b"])),
                "attrs": [], "stmts": stmts, "children": kids,
                "order": [0], "close_space": ""}

    nodes = [probes(), ["elem", elem(1)], probes()]
    if draw(st.booleans()):
        nodes += [["elem", elem(2)], probes()]
    return {"nodes": nodes, "bindings": draw(tstrat.bindings_strategy())}


def same_text_nested(nodes, inherited=()):
    """Some statement text of an element occurs again below it."""
    for n in nodes:
        if n[0] != "elem":
            continue
        mine = [repr(n[1]["stmts"][k]) for k in ("define", "repeat")
                if k in n[1]["stmts"]]
        if any(m in inherited for m in mine):
            return True
        if same_text_nested(n[1]["children"], tuple(inherited) + tuple(mine)):
            return True
    return False


class Shadow(Statements):
    name = "shadow"
    examples = {"quick": 500, "thorough": 15000}
    floors = {"same_text_nested": 0.15}

    def strategy(self, tier):
        return shadow_templates(3 if tier == "quick" else 4)

    def nontrivial(self, case):
        return same_text_nested(case["nodes"])

    def labels(self, case):
        if same_text_nested(case["nodes"]):
            yield "same_text_nested"

    def permutations(self, case, limit=2):
        return ()


CHECK = Check(
    "C01", "exploration",
    rule=("abstract templates (depth <= 3 quick / 4 thorough, <= 14 elements) "
          "whose elements carry random subsets of the TAL statements, "
          "expressions over bound variables of every value class; "
          "non-trivial = some element carries >= 2 statements; distinct by "
          "sha1 of the case; each case is also rendered with 2 other written "
          "orders of its statement attributes; part shadow: chains of nested "
          "elements with tal:define / tal:repeat texts from a small pool and "
          "name probes around every element, non-trivial = a statement text "
          "occurs again on a descendant"),
    parts=[Statements(), Shadow()],
    assumptions=[
        "inside the guard group the implementation's order and the order "
        "printed in docs/reference.rst are both accepted; tal:repeat is not "
        "combined with tal:case or tal:switch on one element (result depends "
        "on an order the property does not fix)",
        "repeat separators follow the characterised rule of tmodel.separators",
    ],
    technique="Hypothesis abstract-template generation + independent "
              "reference interpreter + metamorphic attribute permutation",
)
