"""C01 - TAL statements render with the language semantics, in one fixed
order.

Oracles
  model      vlib/tmodel.py reference interpreter: rendered text equal, same
             exception class if any.  Two statement orders inside the guard
             group are accepted (the implementation's, pinned by the golden
             files, and the one printed in docs/reference.rst); everything
             else is a violation.
  permute    the same element with its statement attributes written in a
             different order renders the identical text (all permutations in
             the thorough tier for elements with <= 4 statements).
"""
from __future__ import annotations

import itertools

from hypothesis import strategies as st

from vlib import tmodel, tstrat, values
from vlib.cham import run
from vlib.harness import Check, Mismatch, Part


def render_chameleon(source, env, **cfg):
    from chameleon import PageTemplate
    o = run(PageTemplate, source, **cfg)
    if not o.ok:
        return ("compile-exc", o.exc, None)
    t = o.value
    o = run(t.render, **env)
    if not o.ok:
        return ("exc", o.exc, None)
    return ("out", o.value, None)


def outcome_key(r):
    """Comparable summary of a run."""
    if r[0] == "out":
        return ("out", r[1])
    return (r[0], type(r[1]).__name__)


def model_outcome(nodes, bindings, order, **kw):
    env = values.env(bindings)
    r = tmodel.run_model(nodes, env, guard_order=order, **kw)
    if r[0] == "out":
        return ("out", r[1]), r[2]
    return ("exc", type(r[1]).__name__), r[2]


def elems(nodes):
    for n in nodes:
        if n[0] == "elem":
            yield n[1]
            yield from elems(n[1]["children"])


class Statements(Part):
    name = "stmts"
    examples = {"quick": 1500, "thorough": 40000}
    floors = {"multi2": 0.25, "multi3": 0.08}

    def strategy(self, tier):
        return tstrat.templates(depth=3 if tier == "quick" else 4)

    def source(self, case):
        return tmodel.serialize(case["nodes"]).text()

    def nontrivial(self, case):
        return any(len(e["stmts"]) >= 2 for e in elems(case["nodes"]))

    def labels(self, case):
        m = max([len(e["stmts"]) for e in elems(case["nodes"])] or [0])
        if m >= 2:
            yield "multi2"
        if m >= 3:
            yield "multi3"
        for e in elems(case["nodes"]):
            for k in e["stmts"]:
                yield "has_" + k
            break

    def sample(self, case):
        return {"source": self.source(case), "bindings": case["bindings"]}

    def chameleon(self, case, source=None):
        env = values.env(case["bindings"])
        log = []
        from vlib import exprs
        rec, boom = exprs.make_callables(log)
        env["rec"], env["boom"] = rec, boom
        r = render_chameleon(source or self.source(case), env)
        return outcome_key(r), log

    def oracle(self, case):
        src = self.source(case)
        got, log = self.chameleon(case, src)
        exp, mlog = model_outcome(case["nodes"], case["bindings"],
                                  tmodel.STMT_ORDER_IMPL)
        if got != exp:
            exp2, _ = model_outcome(case["nodes"], case["bindings"],
                                    tmodel.STMT_ORDER_DOCS)
            if got != exp2:
                kind = "stmts:%s vs %s" % (got[0], exp[0])
                if got[0] != "out":
                    kind += ":" + got[1]
                elif exp[0] != "out":
                    kind += ":" + exp[1]
                return Mismatch(kind, {
                    "source": src, "bindings": case["bindings"],
                    "got": got, "expected": exp})
        # permutation of the statement attributes: identical result
        for perm_src in self.permutations(case):
            g2, _ = self.chameleon(case, perm_src)
            if g2 != got:
                return Mismatch("stmts:attribute order changes result", {
                    "source": src, "permuted": perm_src,
                    "bindings": case["bindings"], "got": got,
                    "got_permuted": g2})
        return None

    def permutations(self, case, limit=2):
        """Sources of the same template with other statement orders."""
        import copy
        nodes = copy.deepcopy(case["nodes"])
        es = [e for e in elems(nodes) if len(e["stmts"]) >= 2]
        if not es:
            return
        base = [list(e.get("order") or [0]) for e in es]
        for k in range(1, limit + 1):
            for e, b in zip(es, base):
                n = len(e["stmts"])
                # rotate / reverse the insertion ranks
                e["order"] = [(b[j % len(b)] * (k + 1) + (n - j) * k) % 7
                              for j in range(n)]
            yield tmodel.serialize(nodes).text()


CHECK = Check(
    "C01", "exploration",
    rule=("abstract templates (depth <= 3 quick / 4 thorough, <= 14 elements) "
          "whose elements carry random subsets of the TAL statements, "
          "expressions over bound variables of every value class; "
          "non-trivial = some element carries >= 2 statements; distinct by "
          "sha1 of the case; each case is also rendered with 2 other written "
          "orders of its statement attributes"),
    parts=[Statements()],
    assumptions=[
        "inside the guard group the implementation's order and the order "
        "printed in docs/reference.rst are both accepted; tal:repeat is not "
        "combined with tal:case or tal:switch on one element (result depends "
        "on an order the property does not fix)",
        "repeat separators follow the characterised rule of tmodel.separators",
    ],
    technique="Hypothesis abstract-template generation + independent "
              "reference interpreter + metamorphic attribute permutation",
)
