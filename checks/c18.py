"""C18 - Template-language markup never leaks and is independent of prefix
spelling.

Generated C01 templates (with tal:-namespace elements, foreign attributes
and declarations mixed in) are written in several *spellings* of the same
abstract template:

  default    tal: prefix
  other      another prefix bound to the TAL namespace URI, declared on an
             ancestor (root) or on every element that uses it
  data       statements written data-<prefix>-<name> (for a random subset of
             the statements of each element, so that both forms mix on one
             element), with enable_data_attributes=True
  bare       attributes without prefix on elements of the TAL namespace

Oracles
  (1) every spelling renders exactly what the default spelling renders
      (text / exception class), and the default spelling equals the
      reference interpreter (so that foreign material is known to be
      preserved verbatim and in place);
  (2) leak scan with the independent reader: no tag or attribute with a
      prefix bound to a template-language namespace, no xmlns declaration of
      such a namespace, no data-<prefix>-* statement attribute;
  (3) with the option off, data-tal-* attributes are ordinary attributes and
      are reproduced.
"""
from __future__ import annotations

from hypothesis import strategies as st

from vlib import exprs, reader, tmodel, tstrat, values
from vlib.cham import run
from vlib.harness import Check, Mismatch, Part
from checks.c01 import elems

TEMPLATE_URIS = ["http://xml.zope.org/namespaces/tal",
                 "http://xml.zope.org/namespaces/metal",
                 "http://xml.zope.org/namespaces/i18n",
                 "http://xml.zope.org/namespaces/meta"]
ROOT_FOREIGN = ' xmlns:foo="urn:foo" xmlns="http://www.w3.org/1999/xhtml"'


@st.composite
def cases(draw):
    undeclared = draw(st.booleans())
    base = draw(tstrat.templates(depth=2, max_elems=8, ns_elems=True,
                                 foreign=True, undeclared=undeclared,
                                 dup_attrs=True, rec=False, onerror=3,
                                 onerror_simple=True, fail_p=9))
    return {
        "nodes": base["nodes"], "bindings": base["bindings"],
        "restricted": not undeclared,
        "prefix": draw(st.sampled_from(["t", "tal2", "x-tal", "T", "foo2"])),
        "decl": draw(st.sampled_from(["root", "self"])),
        "data_mask": draw(st.integers(1, 2 ** 12 - 1)),
        "data_prefix": draw(st.sampled_from(["tal", "tal", "t"])),
    }


def source(case, spelling=None, root_decl=""):
    inner = tmodel.serialize(case["nodes"], spelling=spelling).text()
    return "<root" + root_decl + ROOT_FOREIGN + ">" + inner + "</root>"


def spellings(case):
    """name -> (source, config)"""
    p = case["prefix"]
    cfg = {"restricted_namespace": case["restricted"]}
    out = {"default": (source(case), dict(cfg))}
    if case["decl"] == "root":
        out["other_prefix"] = (source(
            case, {"prefix": p}, ' xmlns:%s="%s"' % (p, TEMPLATE_URIS[0])),
            dict(cfg))
    else:
        out["other_prefix"] = (source(case, {"prefix": p, "decl": "self"}),
                               dict(cfg))
    dp = case["data_prefix"]
    decl = "" if dp == "tal" else ' xmlns:%s="%s"' % (dp, TEMPLATE_URIS[0])
    out["data"] = (source(case, {"prefix": dp, "data": case["data_mask"]},
                          decl), dict(cfg, enable_data_attributes=True))
    out["default_data_on"] = (source(case), dict(
        cfg, enable_data_attributes=True))
    return out


def render(src, cfg, bindings):
    from chameleon import PageTemplate
    o = run(PageTemplate, src, **cfg)
    if not o.ok:
        return ("compile-exc", o.exc_name)
    env = values.env(bindings)
    env["rec"], env["boom"] = exprs.make_callables([])
    o = run(o.value.render, **env)
    if not o.ok:
        return ("exc", o.exc_name)
    return ("out", o.value)


def leaks(text, prefixes):
    """Template-language markup in rendered output."""
    found = []
    for t in reader.scan(text):
        if t[0] == "start":
            if ":" in t[1] and t[1].split(":")[0] in prefixes:
                found.append("tag " + t[1])
            for name, q, val in t[2]:
                if ":" in name and name.split(":")[0] in prefixes:
                    found.append("attribute " + name)
                if name.startswith("xmlns") and val in TEMPLATE_URIS:
                    found.append("declaration " + name)
                if name.startswith("data-") and \
                        name[5:].split("-")[0] in prefixes and \
                        name.count("-") >= 2:
                    found.append("data attribute " + name)
        elif t[0] == "end":
            if ":" in t[1] and t[1].split(":")[0] in prefixes:
                found.append("end tag " + t[1])
    return found


class Spelling(Part):
    name = "spelling"
    examples = {"quick": 700, "thorough": 25000}
    floors = {"foreign": 0.3, "ns_element": 0.2}

    def strategy(self, tier):
        return cases()

    def _flags(self, case):
        es = list(elems(case["nodes"]))
        foreign = any(a[1] in tstrat.FOREIGN_ATTRS + tstrat.UNDECLARED_ATTRS
                      for e in es for a in e["attrs"])
        return {
            "foreign": foreign,
            "ns_element": any(e.get("ns") for e in es),
            "multi": any(len(e["stmts"]) >= 2 for e in es),
            "same_elem": any(len(e["stmts"]) >= 2 and any(
                a[1] in tstrat.FOREIGN_ATTRS for a in e["attrs"])
                for e in es),
        }

    def nontrivial(self, case):
        f = self._flags(case)
        return f["multi"] and f["foreign"]

    def labels(self, case):
        for k, v in self._flags(case).items():
            if v:
                yield k
        yield "decl_" + case["decl"]

    def sample(self, case):
        sp = spellings(case)
        return {"default": sp["default"][0], "data": sp["data"][0]}

    def oracle(self, case):
        sp = spellings(case)
        results = {k: render(src, cfg, case["bindings"])
                   for k, (src, cfg) in sp.items()}
        base = results["default"]
        detail = {"sources": {k: v[0] for k, v in sp.items()},
                  "bindings": case["bindings"], "results": results}
        # (1a) the default spelling agrees with the reference interpreter
        r = tmodel.run_model(case["nodes"], values.env(case["bindings"]))
        if r[0] == "out":
            exp = ("out", "<root" + ROOT_FOREIGN + ">" + r[1] + "</root>")
        else:
            exp = ("exc", type(r[1]).__name__)
        if base != exp:
            return Mismatch("spelling:default differs from the model", dict(
                detail, expected=exp))
        # (1b) every other spelling renders the same
        for k, res in results.items():
            if res != base:
                return Mismatch("spelling:%s differs from default" % k,
                                dict(detail, which=k))
        # (2) nothing of the template language is left
        prefixes = {"tal", "metal", "i18n", "meta", case["prefix"],
                    case["data_prefix"]}
        for k, res in results.items():
            if res[0] == "out":
                found = leaks(res[1], prefixes)
                if found:
                    return Mismatch("spelling:leak (%s)" % found[0].split()[0],
                                    dict(detail, which=k, leaks=found))
        return None


class NsScope(Part):
    """A prefix bound to a template namespace on an element is bound inside
    that element only - also when the element contains start tags that are
    never closed (HTML void elements).  After the element the prefix is an
    ordinary, undeclared one: with restricted_namespace=False its attributes
    are preserved as written."""
    name = "nsscope"
    examples = {"quick": 200, "thorough": 5000}

    def strategy(self, tier):
        void = st.sampled_from(["<br>", "<hr>", '<img src="x">', "<br >",
                                '<input xmlns:u="urn:u" u:a="1">',
                                '<br xmlns:t2="%s">' % TEMPLATE_URIS[0]])
        return st.fixed_dictionaries({
            "prefix": st.sampled_from(["t", "tal3", "x"]),
            "voids": st.lists(void, max_size=3),
            "voids_after_inner": st.lists(void, max_size=2),
            "depth": st.integers(0, 2),
            "own_decl_after": st.booleans(),
        })

    def build(self, case):
        p = case["prefix"]
        uri = TEMPLATE_URIS[0]
        strip = lambda s: s.replace(' xmlns:t2="%s"' % uri, "")  # noqa: E731
        inner_src = "".join(case["voids"]) + \
            "<i %s:content=\"'in'\">x</i>" % p + \
            "".join(case["voids_after_inner"])
        inner_out = strip("".join(case["voids"])) + "<i>in</i>" + \
            strip("".join(case["voids_after_inner"]))
        for _ in range(case["depth"]):
            inner_src = "<b>" + inner_src + "</b>"
            inner_out = "<b>" + inner_out + "</b>"
        src = '<div><p xmlns:%s="%s">%s</p>' % (p, uri, inner_src)
        out = "<div><p>%s</p>" % inner_out
        after = "<i %s:content=\"'out'\">b</i>" % p
        src += after
        out += after
        if case["own_decl_after"]:
            src += '<i xmlns:%s="%s" %s:content="\'ok\'">c</i>' % (p, uri, p)
            out += "<i>ok</i>"
        return src + "</div>", out + "</div>"

    def nontrivial(self, case):
        return bool(case["voids"] or case["voids_after_inner"])

    def labels(self, case):
        if case["voids"] or case["voids_after_inner"]:
            yield "unclosed_start_tags"

    def sample(self, case):
        return {"source": self.build(case)[0]}

    def oracle(self, case):
        src, want = self.build(case)
        got = render(src, {"restricted_namespace": False}, {})
        if got != ("out", want):
            return Mismatch("nsscope:differs", {"source": src, "got": got,
                                                "expected": want})
        return None


class DataOff(Part):
    """With enable_data_attributes off, data-tal-* is ordinary markup."""
    name = "dataoff"
    examples = {"quick": 200, "thorough": 4000}

    def strategy(self, tier):
        return st.fixed_dictionaries({
            "attrs": st.lists(st.sampled_from(
                ['data-tal-content="x"', "data-tal-replace='y'",
                 'data-metal-use-macro="m"', 'data-i18n-translate=""',
                 'data-x-y="1"', 'class="c"', 'data-tal-omit-tag=""',
                 'data-tal="1"', 'data-="e"']), min_size=1, max_size=4,
                unique=True),
            "text": st.sampled_from(["t", "a b", ""]),
            "explicit_off": st.booleans(),
        })

    def nontrivial(self, case):
        return any("data-tal-" in a or "data-metal" in a or "data-i18n" in a
                   for a in case["attrs"])

    def oracle(self, case):
        from chameleon import PageTemplate
        src = "<div " + " ".join(case["attrs"]) + ">" + case["text"] + \
            "</div>"
        cfg = {"enable_data_attributes": False} if case["explicit_off"] \
            else {}
        o = run(PageTemplate, src, **cfg)
        if o.ok:
            o = run(o.value.render)
        if not o.ok:
            return Mismatch("dataoff:raises " + o.exc_name,
                            {"source": src, "outcome": o.brief()})
        if o.value != src:
            return Mismatch("dataoff:not reproduced", {"source": src,
                                                       "got": o.value})
        return None


class DefaultNs(Part):
    """A template-language namespace bound as the DEFAULT namespace
    (xmlns="<uri>") on an element or an ancestor: unprefixed elements are
    then language elements (their tags never appear) and their unprefixed
    attributes are statements; the declaration itself never appears.  Every
    case is also rendered in the prefixed spelling, which must give the
    same text."""
    name = "defaultns"
    examples = {"quick": 250, "thorough": 5000}

    U = {"tal": TEMPLATE_URIS[0], "metal": TEMPLATE_URIS[1],
         "i18n": TEMPLATE_URIS[2], "meta": TEMPLATE_URIS[3]}
    # kind -> (namespace, statements, body, expected)
    KINDS = {
        "repeat": ("tal", ' repeat="i range(2)"', "x${i}", "x0x1"),
        "content": ("tal", " content=\"'v'\"", "d", "v"),
        "replace": ("tal", " replace=\"'r'\"", "d", "r"),
        "cond_false": ("tal", ' condition="False"', "c", ""),
        "cond_true": ("tal", ' condition="True"', "c", "c"),
        "define": ("tal", " define=\"a 'A'\"", "${a}", "A"),
        "omit": ("tal", ' omit-tag=""', "o", "o"),
        "two": ("tal", " define=\"a 'A'\" repeat=\"i 'ab'\"", "${a}${i}",
                "AaAb"),
        "plain": ("tal", "", "p ${1 + 1}", "p 2"),
        "macro": ("metal", ' define-macro="m"', "M", "M"),
        "translate": ("i18n", ' translate=""', "Hello", "[Hello]"),
        "domain": ("i18n", ' domain="d"',
                   '<h:i xmlns:h="urn:h" i18n:translate="">Hi</h:i>',
                   '<h:i xmlns:h="urn:h">[Hi]</h:i>'),
        "interp_off": ("meta", ' interpolation="false"', "${x}", "${x}"),
    }

    def strategy(self, tier):
        return st.fixed_dictionaries({
            "kind": st.sampled_from(sorted(self.KINDS)),
            "name": st.sampled_from(["block", "x", "div", "p", "Case"]),
            "where": st.sampled_from(["self", "self", "ancestor",
                                      "foreign_prefixed"]),
            "child": st.sampled_from(["", "", "reset", "prefixed", "bare"]),
            "pre": st.sampled_from(["", "a ", "<b>b</b>"]),
            "post": st.sampled_from(["", " z", "<u/>"]),
            "selfclose_sibling": st.booleans(),
        })

    def build(self, case):
        """(default-namespace source, prefixed source, expected text)"""
        ns, stmts, body, want = self.KINDS[case["kind"]]
        uri = self.U[ns]
        name = case["name"]
        child_d = child_p = child_out = ""
        if ns == "tal" and case["kind"] in ("plain", "define", "omit",
                                            "cond_true"):
            c = case["child"]
            if c == "reset":
                # an element that binds the default namespace to something
                # else again is an ordinary element (declaration preserved)
                child_d = child_p = ('<q xmlns="urn:other" '
                                     'tal:content="1 + 2">n</q>')
                child_out = '<q xmlns="urn:other">3</q>'
            elif c == "prefixed":
                child_d = child_p = "<tal:y replace=\"'Y'\">n</tal:y>"
                child_out = "Y"
            elif c == "bare":
                child_d = "<inner content=\"'I'\">n</inner>"
                child_p = "<tal:inner content=\"'I'\">n</tal:inner>"
                child_out = "I"
        decl = ' xmlns="%s"' % uri
        el_p = "<%s:%s%s>%s%s</%s:%s>" % (ns, name, stmts, body, child_p,
                                          ns, name)
        if case["where"] == "self":
            el_d = "<%s%s%s>%s%s</%s>" % (name, decl, stmts, body, child_d,
                                         name)
        elif case["where"] == "ancestor":
            el_d = "<w%s><%s%s>%s%s</%s></w>" % (decl, name, stmts, body,
                                                 child_d, name)
        else:
            # the declaration sits on an element that has a foreign prefix:
            # the element stays, the declaration goes
            el_d = '<f:g xmlns:f="urn:f"%s><%s%s>%s%s</%s></f:g>' % (
                decl, name, stmts, body, child_d, name)
            el_p = '<f:g xmlns:f="urn:f">%s</f:g>' % el_p
        out = want + (child_out if want or case["kind"] != "cond_false"
                      else "")
        if case["where"] == "foreign_prefixed":
            out = '<f:g xmlns:f="urn:f">%s</f:g>' % out
        sib = '<br xmlns="urn:s"/>' if case["selfclose_sibling"] else ""
        tail = ""
        if case["kind"] == "macro":
            # used through the other spelling, after the definition
            tail = "<metal:u use-macro=\"macros['m']\"/>"
            out_tail = "M"
        else:
            out_tail = ""
        wrap = "<div>%s%s%s%s%s after</div>"
        return (wrap % (case["pre"], sib, el_d, tail, case["post"]),
                wrap % (case["pre"], sib, el_p, tail, case["post"]),
                wrap % (case["pre"], sib, out, out_tail, case["post"]))

    def nontrivial(self, case):
        return True

    def labels(self, case):
        yield self.KINDS[case["kind"]][0]
        yield "where_" + case["where"]

    def sample(self, case):
        return {"source": self.build(case)[0]}

    def oracle(self, case):
        from chameleon import PageTemplate
        d, p, want = self.build(case)
        res = {}
        for k, src in (("default_ns", d), ("prefixed", p)):
            o = run(PageTemplate, src,
                    translate=lambda m, **kw: "[%s]" % m)
            if o.ok:
                o = run(o.value.render)
            res[k] = ("out", o.value) if o.ok else ("exc", o.exc_name)
        detail = {"default_ns": d, "prefixed": p, "results": res,
                  "expected": want}
        if res["prefixed"] != ("out", want):
            return Mismatch("defaultns:prefixed spelling differs from the "
                            "expected text", detail)
        if res["default_ns"] != ("out", want):
            if res["default_ns"][0] == "out" and any(
                    u in res["default_ns"][1] for u in TEMPLATE_URIS):
                return Mismatch("defaultns:declaration leaks", detail)
            return Mismatch("defaultns:default-namespace spelling differs",
                            detail)
        return None


# (language, default prefix, statement attribute, what the element shows)
CASE_TWIN_STMTS = [
    (0, "tal", "content", "'x'", "x"),
    (0, "tal", "define", "v 1", "y"),
    (1, "metal", "define-macro", "m", "y"),
    (2, "i18n", "translate", "", "y"),
    (2, "i18n", "domain", "d", "y"),
]


class CaseTwins(Part):
    """XML names are case sensitive: on one tag, an attribute (or prefix
    declaration) of a template language and a FOREIGN one whose name differs
    from it only by case are two things - the first is executed and
    dropped, the second is kept as written."""
    name = "casetwins"
    examples = {"quick": 150, "thorough": 2000}

    def strategy(self, tier):
        return st.fixed_dictionaries({
            "stmt": st.integers(0, len(CASE_TWIN_STMTS) - 1),
            # which of the two spellings belongs to the template language
            "language_upper": st.booleans(),
            # where the two prefixes are declared
            "decl": st.sampled_from(["same_tag", "parent", "mixed"]),
            "order": st.booleans(),
            "extra": st.sampled_from(["", ' class="c"', ' Class="C" class="c"']),
        })

    def nontrivial(self, case):
        return True

    def labels(self, case):
        yield "decl_" + case["decl"]

    def build(self, case):
        li, prefix, name, value, shown = CASE_TWIN_STMTS[case["stmt"]]
        uri = TEMPLATE_URIS[li]
        lang, foreign = (prefix.upper(), prefix) if case["language_upper"] \
            else (prefix, prefix.upper())
        d_lang = ' xmlns:%s="%s"' % (lang, uri)
        d_for = ' xmlns:%s="urn:foreign"' % foreign
        a_lang = ' %s:%s="%s"' % (lang, name, value)
        a_for = ' %s:%s="keep"' % (foreign, name)
        attrs = (a_lang + a_for) if case["order"] else (a_for + a_lang)
        decls = (d_lang + d_for) if case["order"] else (d_for + d_lang)
        if case["decl"] == "same_tag":
            src = "<div><p%s%s%s>y</p></div>" % (decls, attrs, case["extra"])
            out = "<div><p%s%s%s>%s</p></div>" % (d_for, a_for,
                                                  case["extra"], shown)
        elif case["decl"] == "parent":
            src = "<div%s><p%s%s>y</p></div>" % (decls, attrs, case["extra"])
            out = "<div%s><p%s%s>%s</p></div>" % (d_for, a_for,
                                                  case["extra"], shown)
        else:
            src = "<div%s><p%s%s%s>y</p></div>" % (d_for, d_lang, attrs,
                                                   case["extra"])
            out = "<div%s><p%s%s>%s</p></div>" % (d_for, a_for,
                                                  case["extra"], shown)
        return src, out

    def sample(self, case):
        return {"source": self.build(case)[0]}

    def oracle(self, case):
        src, want = self.build(case)
        got = render(src, {}, {})
        if got != ("out", want):
            return Mismatch("casetwins:differs", {
                "source": src, "got": got, "expected": want})
        return None


CHECK = Check(
    "C18", "exploration",
    rule=("generated templates (TAL statements, tal:-namespace elements with "
          "prefixed or bare attributes, foreign attributes: declared foreign "
          "prefix, data-x / data-x-y / data-x-y-z, xml:lang, @click, and - "
          "with restricted_namespace off - undeclared prefixes) x 4 spellings "
          "(default, other prefix declared on the root or on each element, "
          "data- attributes for a random subset of each element's statements, "
          "default with the data option on); non-trivial = an element with "
          ">= 2 statements and a foreign attribute present; distinct by sha1"),
    parts=[Spelling(), DataOff(), NsScope(), DefaultNs(), CaseTwins()],
    assumptions=[
        "only the TAL namespace is re-spelled here; METAL and I18N "
        "re-spellings are part of C09 / C10",
        "xmlns declarations of the template namespaces are written on the "
        "synthetic root element or on the element that uses the prefix",
    ],
    technique="metamorphic re-spelling of abstract templates + leak scan "
              "with an independent reader + reference interpreter",
)
