"""C10 - i18n: message ids, mappings and translation context are computed
correctly.

Templates are generated from a small i18n grammar (checks/c10.py): static
text, ${var} interpolations, message objects, elements carrying
i18n:translate (computed or explicit id, also nested and together with
tal:content), i18n:name children (plain, under tal:condition / tal:repeat /
tal:omit-tag / tal:replace), i18n:domain / context / target on any
ancestor, i18n:attributes with and without ids on static and dynamic
attributes, and the implicit-translation options.  A recording translation
function of one of three behaviours (identity with ${name} substitution,
rewriting "[msgid]", hostile markup) is configured.

Oracle: a reference model of the call contract.  Compared: the ORDERED log
of translation calls with all arguments (msgid, mapping as a dict, default,
domain, context, target_language) and the rendered text.
"""
from __future__ import annotations

import html
import re

from hypothesis import strategies as st

from vlib import values
from vlib.cham import run
from vlib.harness import Check, Mismatch, Part

TEXTS = ["Hello", "Hello world", "  Hello\n   world  ", "a &amp; b", "é日本",
         " ", "\n  ", "x", "Price: ", " and ", ".", "$5", "100%"]
NAMES = ["n1", "n2", "who", "a-b", "a_b", "a-b", "a_b"]


# --------------------------------------------------------------------------
# generator

@st.composite
def element(draw, depth, in_translate, used_names, allow_name=True):
    el = {"name": draw(st.sampled_from(["p", "span", "b", "div", "em"])),
          "attrs": [], "i18n": {}, "tal": {}, "children": []}
    i = el["i18n"]
    t = el["tal"]
    if draw(st.integers(0, 3)) == 0:
        i["domain"] = draw(st.sampled_from(["d1", "d2"]))
    if draw(st.integers(0, 5)) == 0:
        i["context"] = draw(st.sampled_from(["c1", "c2"]))
    if draw(st.integers(0, 5)) == 0:
        i["target"] = draw(st.sampled_from(["'de'", "'fr'", "None", "lang"]))
    if in_translate and allow_name and draw(st.integers(0, 1)) == 0:
        free = [n for n in NAMES if n not in used_names]
        if free:
            i["name"] = draw(st.sampled_from(free))
            used_names.add(i["name"])
    c = draw(st.integers(0, 9))
    if c == 0:
        t["condition"] = draw(st.booleans())
    elif c == 1:
        t["repeat"] = draw(st.integers(0, 3))
    elif c == 2:
        t["omit"] = True
    elif c == 3:
        t["replace"] = draw(st.sampled_from(["v0", "v1", "m0"]))
    # attributes
    for _ in range(draw(st.integers(0, 2))):
        an = draw(st.sampled_from(["alt", "title", "href", "class"]))
        if any(a[0] == an for a in el["attrs"]):
            continue
        if draw(st.integers(0, 3)) == 0:
            el["attrs"].append([an, "dyn", draw(st.sampled_from(
                ["v0", "v1", "v0", "v1", "vn"]))])
        else:
            el["attrs"].append([an, "static", draw(st.sampled_from(
                ["Hello", "a b", "x &amp; y", "", "Hello ${v0}",
                 "${v0} and ${v1}", "${v1}", "Hi ${v1}!"]))])
    spec = []
    for a in el["attrs"]:
        if a[0] in ("alt", "title") and draw(st.booleans()):
            spec.append([a[0], draw(st.sampled_from([None, None,
                                                     a[0] + "-id"]))])
    if spec:
        i["attributes"] = spec
    if "replace" in t:
        return el
    # translation
    tr = draw(st.integers(0, 4))
    if tr <= 1:
        i["translate"] = "" if tr == 0 or draw(st.booleans()) else \
            draw(st.sampled_from(["msg-id", "other id"]))
    if "translate" in i and i["translate"] == "" and \
            draw(st.integers(0, 5)) == 0:
        t["content"] = draw(st.sampled_from(["v0", "v1", "m0"]))
        return el
    inner_names = set() if "translate" in i else used_names
    inner_tr = in_translate or "translate" in i
    kids = []
    for _ in range(draw(st.integers(0, 3))):
        k = draw(st.integers(0, 5))
        if k <= 1 or depth == 0:
            txt = draw(st.sampled_from(TEXTS))
            if kids and kids[-1][0] == "text":
                kids[-1][1] += txt
            else:
                kids.append(["text", txt])
        elif k == 2:
            kids.append(["interp", draw(st.sampled_from(["v0", "v1", "m0"]))])
        else:
            kids.append(["elem", draw(element(depth - 1, inner_tr,
                                              inner_names))])
    el["children"] = kids
    return el


@st.composite
def cases(draw):
    used = set()
    nodes = []
    for _ in range(draw(st.integers(1, 3))):
        if draw(st.integers(0, 3)) == 0:
            nodes.append(["text", draw(st.sampled_from(TEXTS))])
        else:
            nodes.append(["elem", draw(element(3, False, used))])
    # adjacent text nodes would be one token
    merged = []
    for n in nodes:
        if n[0] == "text" and merged and merged[-1][0] == "text":
            merged[-1][1] += n[1]
        else:
            merged.append(n)
    implicit_t = draw(st.integers(0, 4)) == 0
    if implicit_t:
        # implicit translation of text that contains ${...} follows other
        # rules (only plain names, no default): static text only here
        keep = draw(st.booleans())

        def strip(ns):
            out = []
            for n in ns:
                if n[0] == "interp" and not keep:
                    n = ["text", "I"]
                elif n[0] == "elem":
                    n[1]["children"] = strip(n[1]["children"])
                if n[0] == "text" and out and out[-1][0] == "text":
                    out[-1][1] += n[1]
                else:
                    out.append(n)
            return out
        merged = strip(merged)
    return {
        "nodes": merged,
        "fn": draw(st.sampled_from(["identity", "identity", "bracket",
                                    "hostile", "default", "simple"])),
        "implicit_translate": implicit_t,
        "implicit_attributes": draw(st.sampled_from([[], [], ["title"],
                                                     ["alt", "title"]])),
        "bindings": {
            "v0": draw(st.sampled_from(["plain", "<b>&", "", "é"])),
            "v1": draw(st.sampled_from(["two words", "x\"y", "7"])),
            "lang": draw(st.sampled_from(["it", None])),
        },
        "target_language": draw(st.sampled_from([None, "en"])),
        # an encoding is in effect (the translation function is wrapped
        # then): the call contract is the same
        "encoding": draw(st.sampled_from([None, None, "utf-8", "latin-1"])),
    }


# --------------------------------------------------------------------------
# source text

def source(nodes):
    out = []
    for n in nodes:
        if n[0] == "text":
            out.append(n[1])
        elif n[0] == "interp":
            out.append("${%s}" % n[1])
        else:
            e = n[1]
            i, t = e["i18n"], e["tal"]
            a = []
            for an, kind, val in e["attrs"]:
                if kind == "static":
                    a.append(' %s="%s"' % (an, val))
            dyn = [(an, val) for an, kind, val in e["attrs"] if kind == "dyn"]
            if dyn:
                a.append(' tal:attributes="%s"' % "; ".join(
                    "%s %s" % d for d in dyn))
            if "attributes" in i:
                a.append(' i18n:attributes="%s"' % "; ".join(
                    n_ if id_ is None else "%s %s" % (n_, id_)
                    for n_, id_ in i["attributes"]))
            for k in ("domain", "context", "target", "name", "translate"):
                if k in i:
                    a.append(' i18n:%s="%s"' % (k, i[k]))
            if "condition" in t:
                a.append(' tal:condition="%s"' % t["condition"])
            if "repeat" in t:
                a.append(' tal:repeat="r range(%d)"' % t["repeat"])
            if t.get("omit"):
                a.append(' tal:omit-tag=""')
            if "replace" in t:
                a.append(' tal:replace="%s"' % t["replace"])
            if "content" in t:
                a.append(' tal:content="%s"' % t["content"])
            a += e.get("metal", [])
            out.append("<" + e["name"] + "".join(a) + ">")
            out.append(source(e["children"]))
            out.append("</" + e["name"] + ">")
    return "".join(out)


# --------------------------------------------------------------------------
# translation functions (the same code serves model and implementation:
# they are the *environment*, not the thing under test)

INTERP = re.compile(r"\$\{([-\w]+)\}")


SIMPLE = re.compile(r"(?<!\$)\$(?:([a-zA-Z][-a-zA-Z0-9_]*)|"
                    r"\{([a-zA-Z][-a-zA-Z0-9_]*)\})")


def ref_default_translate(msgid, mapping, default):
    """The documented behaviour of the default translation function: the
    default text (else the message id) with $name / ${name} replaced by
    the mapping's values; anything the mapping does not hold is kept."""
    text = default if default is not None else msgid
    if mapping and isinstance(text, str):
        return SIMPLE.sub(lambda m: str(mapping[m.group(1) or m.group(2)])
                          if (m.group(1) or m.group(2)) in mapping
                          else m.group(), text)
    return text


def make_translate(kind, log, real=False):
    """kind 'default': no function is configured (the implementation uses
    its own default function, the model the reference above); 'simple': a
    recording function that delegates to the implementation's default
    function (model: to the reference)."""
    def translate(msgid, domain=None, mapping=None, context=None,
                  target_language=None, default=None):
        key = msgid.msgid if isinstance(msgid, values.Msg) else msgid
        log.append({"msgid": "MSG:" + key if isinstance(msgid, values.Msg)
                    else key, "mapping": dict(mapping) if mapping else None,
                    "default": default, "domain": domain, "context": context,
                    "target_language": target_language})
        if kind in ("default", "simple"):
            if real:
                from chameleon.i18n import simple_translate
                return simple_translate(
                    msgid, domain=domain, mapping=mapping, context=context,
                    target_language=target_language, default=default)
            return ref_default_translate(msgid, mapping, default)
        if kind == "identity":
            if isinstance(msgid, values.Msg):
                return msgid
            text = default if default is not None else msgid
            if mapping and isinstance(text, str):
                text = INTERP.sub(lambda m: str(mapping.get(
                    m.group(1), m.group())), text)
            return text
        if kind == "bracket":
            return "[%s]" % key
        return "<x>&%s" % key
    return translate


# --------------------------------------------------------------------------
# reference model

def normalise(s):
    return re.sub(r"\s+", " ", s).strip()


def text_of(v):
    return html.escape(v, quote=False)


def lexical_names(nodes):
    out = []
    for n in nodes:
        if n[0] == "elem":
            e = n[1]
            if "name" in e["i18n"]:
                out.append(e["i18n"]["name"])
            if "translate" not in e["i18n"] or "content" in e["tal"]:
                out += lexical_names(e["children"])
    return out


class Model:
    def __init__(self, case):
        self.case = case
        self.log = []
        self.translate = make_translate(case["fn"], self.log)
        self.env = dict(case["bindings"])
        self.env["m0"] = values.Msg("m-zero")
        self.env["vn"] = None
        self.last_text = ""
        self.ws = "\n"

    def call(self, msgid, st_, **kw):
        return self.translate(msgid, domain=st_["domain"],
                              context=st_["context"],
                              target_language=st_["target"], **kw)

    def insert(self, v, st_, quote=None):
        """text inserted for a value (message objects are offered to the
        translation function first)"""
        if v is None:
            return ""
        if isinstance(v, values.Msg):
            r = self.call(v, st_)
            v = str(v) if r is v else r
        s = html.escape(str(v), quote=False)
        if quote == '"':
            s = s.replace('"', "&quot;")
        return s

    def note_text(self, nodes, k, piece):
        """Adjacent text / ${} nodes are one token for the 'last text'."""
        if k > 0 and nodes[k - 1][0] in ("text", "interp") and \
                self.last_text is not None:
            self.last_text += piece
        else:
            self.last_text = piece

    def implicit_run(self, nodes, k, st_, buf):
        """Under implicit translation a text token that holds ${name}
        interpolations of plain names next to literal text is offered as one
        message: ${name} placeholders, the inserted texts as mapping, no
        default.  Returns the index after the run, or None."""
        j = k
        while j < len(nodes) and nodes[j][0] in ("text", "interp"):
            j += 1
        run_ = nodes[k:j]
        if len(run_) < 2 or not any(n[0] == "interp" for n in run_):
            return None
        mapping = {}
        msgid = ""
        for q, n in enumerate(run_):
            if n[0] == "text":
                self.note_text(nodes, k + q, n[1])
                msgid += n[1]
            else:
                self.note_text(nodes, k + q, "${%s}" % n[1])
                msgid += "${%s}" % n[1]
                mapping[n[1]] = self.insert(self.env[n[1]], st_)
        buf.append(self.call(msgid, st_, mapping=mapping))
        return j

    def implicit(self):
        """Is text translated implicitly here?  Not inside an element marked
        i18n:translate (its text is part of that element's message, which is
        translated exactly once); a named block inside stands for itself."""
        return self.case["implicit_translate"] and \
            getattr(self, "imp", True)

    def nodes(self, nodes, st_, buf, tctx):
        skip_to = 0
        for k, n in enumerate(nodes):
            if k < skip_to:
                continue
            if self.implicit() and n[0] in ("text", "interp"):
                j = self.implicit_run(nodes, k, st_, buf)
                if j is not None:
                    skip_to = j
                    continue
            if n[0] == "text":
                self.note_text(nodes, k, n[1])
                if self.implicit() and n[1].strip():
                    m = re.search(r"(\s*)(.*\S)(\s*)", n[1], re.S)
                    norm = normalise(m.group(2))
                    buf.append(m.group(1))
                    buf.append(self.call(norm, st_, mapping=None,
                                         default=norm))
                    buf.append(m.group(3))
                else:
                    buf.append(n[1])
            elif n[0] == "interp":
                self.note_text(nodes, k, "${%s}" % n[1])
                buf.append(self.insert(self.env[n[1]], st_))
            else:
                self.elem(n[1], st_, buf, tctx)

    def elem(self, e, st_, buf, tctx):
        i, t = e["i18n"], e["tal"]
        # separator rule (char.): measured where the element starts
        if self.last_text is not None:
            self.ws = "\n" + " " * len(self.last_text.rsplit("\n", 1)[-1])
        sep = self.ws
        if "name" in i:
            nbuf = []
            saved, self.imp = getattr(self, "imp", True), True
            self.elem_guarded(e, st_, nbuf, tctx, sep)
            self.imp = saved
            buf.append("${%s}" % i["name"])
            tctx["mapping"][i["name"]] = "".join(nbuf)
            return
        self.elem_guarded(e, st_, buf, tctx, sep)

    def elem_guarded(self, e, st_, buf, tctx, sep):
        i, t = e["i18n"], e["tal"]
        if t.get("condition") is False:
            self.skip_text(e)
            return
        n = t.get("repeat")
        reps = 1 if n is None else n
        if reps == 0:
            self.skip_text(e)
        saved = self.last_text, self.ws
        for k in range(reps):
            if k:
                self.last_text, self.ws = saved
            st2 = dict(st_)
            layers = [i]
            if "_reset" in e:
                # a slot filler: the settings of the place where it was
                # written, not those of the place where it is rendered
                st2 = self.initial()
                layers = e["_reset"] + [i]
            for ly in layers:
                if "domain" in ly:
                    st2["domain"] = ly["domain"]
                if "context" in ly:
                    st2["context"] = ly["context"]
                if "target" in ly:
                    st2["target"] = {"'de'": "de", "'fr'": "fr", "None": None,
                                     "lang": self.env["lang"]}[ly["target"]]
            self.elem_inner(e, st2, buf, tctx)
            if k < reps - 1:
                buf.append(sep)

    def skip_text(self, e):
        """Text inside an unrendered element still is the 'last text seen'
        (the rule is a compile-time one)."""
        for k, n in enumerate(e["children"]):
            if n[0] == "text":
                self.note_text(e["children"], k, n[1])
            elif n[0] == "interp":
                self.note_text(e["children"], k, "${%s}" % n[1])
            else:
                if self.last_text is not None:
                    self.ws = "\n" + " " * len(
                        self.last_text.rsplit("\n", 1)[-1])
                self.skip_text(n[1])

    def elem_inner(self, e, st_, buf, tctx):
        i, t = e["i18n"], e["tal"]
        if "replace" in t:
            buf.append(self.insert(self.env[t["replace"]], st_))
            return
        omit = t.get("omit")
        if not omit:
            buf.append("<" + e["name"])
            spec = dict((a, b) for a, b in i.get("attributes", ()))
            static = [a for a in e["attrs"] if a[1] == "static"]
            dyn = [a for a in e["attrs"] if a[1] == "dyn"]
            for an, kind, val in static + dyn:
                pieces = None
                if kind == "static" and "${" in val:
                    pieces = re.split(r"\$\{(\w+)\}", val)
                    mapping = {}
                    v = ""
                    for q, piece in enumerate(pieces):
                        if q % 2:
                            mapping[piece] = self.insert(self.env[piece],
                                                         st_, '"')
                            v += mapping[piece]
                        else:
                            v += piece
                    if an not in spec and an in \
                            self.case["implicit_attributes"] and \
                            len([x for x in pieces if x]) > 1:
                        # implicit: one message with placeholders
                        buf.append(' %s="%s"' % (an, self.call(
                            val, st_, mapping=mapping)))
                        continue
                    if an not in spec:
                        buf.append(' %s="%s"' % (an, v))
                        continue
                elif kind == "static":
                    v = val
                elif self.env[val] is None:
                    # the attribute is dropped; nothing is translated
                    continue
                else:
                    v = self.insert(self.env[val], st_, '"')
                if an in spec:
                    # an empty value is translated only under an explicit id
                    if spec[an] is not None:
                        v = self.call(spec[an], st_, default=v)
                    elif v:
                        v = self.call(v, st_, default=v)
                elif kind == "static" and v and an in \
                        self.case["implicit_attributes"]:
                    v = self.call(v, st_, default=v)
                buf.append(' %s="%s"' % (an, v))
            buf.append(">")
        if "content" in t:
            v = self.env[t["content"]]
            if i.get("translate") == "":
                v = self.call(v, st_, default=None)
            buf.append(self.insert(v, st_))
            self.skip_text(e)
        elif "translate" in i:
            cbuf = []
            # every i18n:name written inside this translation (not inside a
            # nested one) is part of the mapping, rendered or not
            ctx = {"mapping": {n: "" for n in lexical_names(e["children"])}}
            saved, self.imp = getattr(self, "imp", True), False
            self.nodes(e["children"], st_, cbuf, ctx)
            self.imp = saved
            content = normalise("".join(cbuf))
            explicit = i["translate"]
            if explicit:
                buf.append(self.call(explicit, st_, mapping=ctx["mapping"]
                                     or None, default=content))
            elif content:
                buf.append(self.call(content, st_, mapping=ctx["mapping"]
                                     or None, default=content))
        else:
            self.nodes(e["children"], st_, buf, tctx)
        if not omit:
            buf.append("</" + e["name"] + ">")

    def initial(self):
        return {"domain": None, "context": None,
                "target": self.case["target_language"]}

    def run(self):
        buf = []
        st_ = self.initial()
        self.nodes(self.case["nodes"], st_, buf, {"mapping": {}})
        return "".join(str(x) for x in buf), self.log


class I18n(Part):
    name = "i18n"
    examples = {"quick": 4000, "thorough": 120000}
    floors = {"translate_with_name": 0.1, "inherited": 0.1}

    def strategy(self, tier):
        return cases()

    def _flags(self, case):
        f = {"translate_with_name": False, "inherited": False,
             "message": False, "attributes": False,
             "attr_interp": False, "attr_interp_listed": False,
             "attr_interp_implicit": False, "implicit_text_interp": False,
             "empty_named_child": False}
        imp = case["implicit_attributes"]

        def walk(nodes, settings_depth, in_tr):
            for n in nodes:
                if n[0] == "interp" and n[1] == "m0":
                    f["message"] = True
                if n[0] != "elem":
                    continue
                e = n[1]
                i = e["i18n"]
                d = settings_depth + (1 if ("domain" in i or "context" in i or
                                            "target" in i) else
                                      (1 if settings_depth else 0))
                if "translate" in i and settings_depth >= 2:
                    f["inherited"] = True
                if "name" in i and in_tr:
                    f["translate_with_name"] = True
                if "attributes" in i:
                    f["attributes"] = True
                listed = [a for a, _ in i.get("attributes", ())]
                for an, kind, val in e["attrs"]:
                    if kind == "static" and "${" in val:
                        f["attr_interp"] = True
                        if an in listed:
                            f["attr_interp_listed"] = True
                        if an in imp:
                            f["attr_interp_implicit"] = True
                if "name" in i and in_tr and (
                        e["tal"].get("condition") is False or
                        e["tal"].get("repeat") == 0):
                    f["empty_named_child"] = True
                if case["implicit_translate"] and any(
                        k[0] == "interp" for k in e["children"]):
                    f["implicit_text_interp"] = True
                walk(e["children"], d, in_tr or "translate" in i)
        walk(case["nodes"], 0, False)
        return f

    def nontrivial(self, case):
        f = self._flags(case)
        return f["translate_with_name"] or f["inherited"] or f["message"]

    def labels(self, case):
        for k, v in self._flags(case).items():
            if v:
                yield k
        yield "fn_" + case["fn"]

    def sample(self, case):
        return {"source": source(case["nodes"]), "fn": case["fn"]}

    def oracle(self, case):
        from chameleon import PageTemplate
        src = source(case["nodes"])
        log = []
        cfg = {"translate": make_translate(case["fn"], log, real=True)}
        if case["fn"] == "default":
            del cfg["translate"]
        if case["implicit_translate"]:
            cfg["implicit_i18n_translate"] = True
        if case["implicit_attributes"]:
            cfg["implicit_i18n_attributes"] = set(
                case["implicit_attributes"])
        if case.get("encoding"):
            cfg["encoding"] = case["encoding"]
        detail = {"source": src, "fn": case["fn"],
                  "encoding": case.get("encoding"),
                  "bindings": case["bindings"],
                  "implicit_translate": case["implicit_translate"],
                  "implicit_attributes": case["implicit_attributes"]}
        o = run(PageTemplate, src, **cfg)
        if not o.ok:
            return Mismatch("i18n:compile raises " + o.exc_name,
                            dict(detail, outcome=o.brief()))
        env = dict(case["bindings"])
        env["m0"] = values.Msg("m-zero")
        env["vn"] = None
        if case["target_language"] is not None:
            env["target_language"] = case["target_language"]
        o = run(o.value.render, **env)
        exp_out, exp_log = Model(case).run()
        if not o.ok:
            return Mismatch("i18n:render raises " + o.exc_name,
                            dict(detail, outcome=o.brief()))
        detail.update(got=o.value, expected=exp_out, log=log,
                      expected_log=exp_log)
        if log != exp_log and case["fn"] != "default":
            if [x["msgid"] for x in log] != [x["msgid"] for x in exp_log]:
                return Mismatch("i18n:message ids / number of calls differ",
                                detail)
            for a, b in zip(log, exp_log):
                for k in ("mapping", "default", "domain", "context",
                          "target_language"):
                    if a[k] != b[k]:
                        return Mismatch("i18n:%s differs" % k, detail)
        if o.value != exp_out:
            return Mismatch("i18n:output differs", detail)
        return None


# --------------------------------------------------------------------------
# macros x translation settings

def _settings(draw, p):
    i = {}
    if draw(st.integers(0, 9)) < p:
        i["domain"] = draw(st.sampled_from(["d1", "d2", "d3"]))
    if draw(st.integers(0, 9)) < p:
        i["context"] = draw(st.sampled_from(["c1", "c2", "c3"]))
    if draw(st.integers(0, 9)) < p:
        i["target"] = draw(st.sampled_from(["'de'", "'fr'", "None", "lang"]))
    return i


def _no_repeat(nodes):
    for n in nodes:
        if n[0] == "elem":
            n[1]["tal"].pop("repeat", None)
            _no_repeat(n[1]["children"])
    return nodes


def _plain(name, i, children, metal=None):
    e = {"name": name, "attrs": [], "i18n": i, "tal": {},
         "children": children}
    if metal:
        e["metal"] = metal
    return e


@st.composite
def _content(draw, lo=1):
    """Content that contains at least one translated thing."""
    nodes = []
    for _ in range(draw(st.integers(lo, 2))):
        c = draw(st.integers(0, 3))
        if c == 0:
            nodes.append(["elem", _plain("u", {"translate": draw(
                st.sampled_from(["", "", "id-x"]))}, [["text", draw(
                    st.sampled_from(["Hello", "Hello world", "x"]))]])])
        elif c == 1:
            nodes.append(["interp", "m0"])
        else:
            nodes.append(["elem", draw(element(2, False, set()))])
    return _no_repeat(nodes)


@st.composite
def macro_cases(draw):
    mode = draw(st.sampled_from(["external", "external", "internal"]))
    wraps = [_settings(draw, 5) for _ in range(draw(st.integers(0, 2)))]
    use_i = _settings(draw, 3)
    macro_outer = _settings(draw, 5)
    macro_el = _settings(draw, 3)
    slots = []
    for k in range(draw(st.integers(1, 2))):
        slots.append({
            "name": "s%d" % k,
            "wrap": _settings(draw, 5),
            "own": _settings(draw, 2),
            "default": draw(_content(0)),
            "filled": draw(st.integers(0, 3)) != 0,
            "filler": None,
            # the slot inside a translated element of the macro: directly,
            # or inside a named part of it
            "in_translate": draw(st.sampled_from([0, 0, 1, 2])),
            "tr_id": draw(st.sampled_from(["", "", "slot-msg"])),
        })
    for sl in slots:
        if sl["filled"]:
            f = _plain(draw(st.sampled_from(["p", "em"])), _settings(draw, 2),
                       draw(_content()))
            if draw(st.integers(0, 3)) == 0:
                f["i18n"]["translate"] = ""
            sl["filler"] = f
    return {
        "mode": mode, "wraps": wraps, "use": use_i,
        "macro_outer": macro_outer, "macro_el": macro_el, "slots": slots,
        "pre": draw(_content(0)), "post": draw(_content(0)),
        "fn": draw(st.sampled_from(["identity", "bracket", "hostile",
                                    "simple"])),
        "implicit_translate": False,
        "implicit_attributes": draw(st.sampled_from([[], [], ["title"]])),
        "bindings": {
            "v0": draw(st.sampled_from(["plain", "<b>&", ""])),
            "v1": draw(st.sampled_from(["two words", "7"])),
            "lang": draw(st.sampled_from(["it", None])),
        },
        "target_language": draw(st.sampled_from([None, "en"])),
    }


def _macro_tree(case, filled, reset):
    """The define-macro element; with ``filled`` the fillers stand in place
    of the slots they fill (marked with the settings they keep)."""
    import copy
    kids = list(copy.deepcopy(case["pre"]))
    for sl in case["slots"]:
        if filled and sl["filled"]:
            f = copy.deepcopy(sl["filler"])
            f["_reset"] = reset
            inner = ["elem", f]
        else:
            md = None if filled else [' metal:define-slot="%s"' % sl["name"]]
            inner = ["elem", _plain("i", sl["own"], copy.deepcopy(
                sl["default"]), md)]
        if sl["in_translate"]:
            if sl["in_translate"] == 2:
                inner = ["elem", _plain("b", {"name": "part" + sl["name"]},
                                        [inner])]
            w = _plain("span", dict(sl["wrap"], translate=sl["tr_id"]),
                       [["text", "A "], inner, ["text", " B"]])
        else:
            w = _plain("span", sl["wrap"], [inner])
        kids.append(["elem", w])
    kids += copy.deepcopy(case["post"])
    md = None if filled else [' metal:define-macro="main"']
    return ["elem", _plain("section", case["macro_el"], kids, md)]


def _wrapped(wraps, node):
    for w in reversed(wraps):
        node = ["elem", _plain("div", w, [node])]
    return node


def macro_sources(case):
    """(caller source, macro source or None)"""
    import copy
    ref = "lib.macros['main']" if case["mode"] == "external" \
        else "macros['main']"
    fillers = [["text", "dropped"]]
    for sl in case["slots"]:
        if sl["filled"]:
            f = copy.deepcopy(sl["filler"])
            f["metal"] = [' metal:fill-slot="%s"' % sl["name"]]
            fillers.append(["elem", f])
    use = ["elem", _plain("div", case["use"], fillers,
                          [' metal:use-macro="%s"' % ref])]
    caller = _wrapped(case["wraps"], use)
    macro = ["elem", _plain("body", case["macro_outer"],
                            [_macro_tree(case, False, None)])]
    if case["mode"] == "external":
        return source([caller]), source(
            [["elem", _plain("html", {}, [macro])]])
    return source([["elem", _plain("html", {}, [macro, caller])]]), None


def macro_expected_nodes(case):
    reset = list(case["wraps"]) + [case["use"]]
    used = _macro_tree(case, True, reset)
    site = _plain("div", case["use"], [used])
    site["tal"]["omit"] = True
    caller = _wrapped(case["wraps"], ["elem", site])
    if case["mode"] == "external":
        return [caller]
    # rendered where it is defined as well, with the settings of that place
    c2 = dict(case, slots=[dict(sl, filled=False) for sl in case["slots"]])
    inplace = _macro_tree(c2, True, None)
    macro = ["elem", _plain("body", case["macro_outer"], [inplace])]
    return [["elem", _plain("html", {}, [macro, caller])]]


class Macros(Part):
    """Translation settings across macro boundaries: a macro body starts
    from the settings in effect where it is used (not from those around its
    definition), a slot filler keeps those of the place where it was written
    (not those of the slot)."""
    name = "macros"
    examples = {"quick": 800, "thorough": 30000}
    floors = {"filler_differs": 0.2, "body_differs": 0.2,
              "filled_in_translate": 0.15}

    def strategy(self, tier):
        return macro_cases()

    def _flags(self, case):
        def eff(layers):
            st_ = {}
            for ly in layers:
                st_.update(ly)
            return st_
        site = eff(case["wraps"] + [case["use"]])
        definition = eff([case["macro_outer"]])
        out = {"body_differs": site != definition, "filler_differs": False,
               "filled_in_translate": any(
                   sl["filled"] and sl["in_translate"]
                   for sl in case["slots"])}
        for sl in case["slots"]:
            if sl["filled"] and eff([site, case["macro_el"], sl["wrap"]]) \
                    != site:
                out["filler_differs"] = True
        return out

    def nontrivial(self, case):
        return any(self._flags(case).values())

    def labels(self, case):
        for k, v in self._flags(case).items():
            if v:
                yield k
        yield case["mode"]

    def sample(self, case):
        a, b = macro_sources(case)
        return {"caller": a, "macro": b}

    def oracle(self, case):
        from chameleon import PageTemplate
        a, b = macro_sources(case)
        log = []
        cfg = {"translate": make_translate(case["fn"], log, real=True)}
        if case["implicit_attributes"]:
            cfg["implicit_i18n_attributes"] = set(
                case["implicit_attributes"])
        detail = {"caller": a, "macro": b, "fn": case["fn"],
                  "bindings": case["bindings"],
                  "target_language": case["target_language"]}
        env = dict(case["bindings"])
        env["m0"] = values.Msg("m-zero")
        env["vn"] = None
        if case["target_language"] is not None:
            env["target_language"] = case["target_language"]
        o = run(PageTemplate, a, **cfg)
        if not o.ok:
            return Mismatch("macros:compile raises " + o.exc_name,
                            dict(detail, outcome=o.brief()))
        t = o.value
        if b is not None:
            o = run(PageTemplate, b, **cfg)
            if not o.ok:
                return Mismatch("macros:compile raises " + o.exc_name,
                                dict(detail, outcome=o.brief()))
            env["lib"] = o.value
        o = run(t.render, **env)
        if not o.ok:
            return Mismatch("macros:render raises " + o.exc_name,
                            dict(detail, outcome=o.brief()))
        m = Model(dict(case, nodes=macro_expected_nodes(case)))
        exp_out, exp_log = m.run()
        detail.update(got=o.value, expected=exp_out, log=log,
                      expected_log=exp_log)
        if [x["msgid"] for x in log] != [x["msgid"] for x in exp_log]:
            return Mismatch("macros:message ids / number of calls differ",
                            detail)
        for x, y in zip(log, exp_log):
            for k in ("domain", "context", "target_language", "mapping",
                      "default"):
                if x[k] != y[k]:
                    return Mismatch("macros:%s differs" % k, detail)
        if o.value != exp_out:
            return Mismatch("macros:output differs", detail)
        return None


CHECK = Check(
    "C10", "exploration",
    rule=("templates from an i18n grammar (depth <= 3): i18n:translate with "
          "computed / explicit id, nested, with tal:content; i18n:name "
          "children plain or under tal:condition / repeat / omit-tag / "
          "replace; i18n:domain / context / target (constant or variable) on "
          "any ancestor; i18n:attributes with/without ids on static and "
          "dynamic attributes; implicit_i18n_translate / _attributes; message "
          "objects inserted by ${} / tal:content / tal:replace; three "
          "recording translation functions; non-trivial = a translate with a "
          "named child, or settings inherited across >= 2 levels, or a "
          "message object; distinct by sha1"),
    parts=[I18n(), Macros()],
    assumptions=[
        "the translation function is environment: the same recording "
        "function is given to the model and to the implementation",
        "macros part: no tal:repeat; slots inside a translated element are "
        "generated directly or inside a named part, fillers carry no "
        "i18n:name themselves",
        "interpolations are not generated under implicit_i18n_translate "
        "inside text that is translated implicitly only when static; "
        "dynamic content + i18n:translate=\"\" offers the value with "
        "default=None (char.)",
        "repeat separators follow the characterised rule (newline + "
        "indentation of the last text before the element)",
    ],
    technique="Hypothesis i18n-grammar generation + reference model of the "
              "translation call contract (ordered call log with all "
              "arguments) and of the rendered text",
)
