"""C13 - tal:on-error replaces exactly the failed element's output with the
fallback.

Generated C01 templates with tal:on-error on random elements (nesting up to
the template depth, together with omit-tag, repeat, switch/case, tal:-
namespace elements) and planted failures: any generated expression may be
replaced by a call that logs its tag and raises (Exception subclasses and,
rarely, KeyboardInterrupt / SystemExit / RecursionError).  Fallback kinds:
text, structure, nothing, error.type, error.value, error.lineno/offset, a
fallback that fails itself.  A recording on_error_handler is configured.

Oracle: reference interpreter with try / truncate / fallback semantics;
compared: rendered text or propagating exception class, the handler log
(one entry per handled failure), and the call log.
"""
from __future__ import annotations

from vlib import exprs, tmodel, tstrat, values
from vlib.cham import run
from vlib.harness import Check, Mismatch, Part
from checks.c01 import elems
from checks.c04 import canonical


HANDLER_KINDS = ["function", "function", "bound_method", "falsy_callable"]


class _ErrorLog(list):
    """An error log that is its own handler: empty (hence false) until the
    first failure has been recorded."""

    def __call__(self, exc):
        self.append(type(exc).__name__)


def make_handler(kind):
    """(handler object, function returning the recorded class names)"""
    if kind == "falsy_callable":
        h = _ErrorLog()
        return h, lambda: list(h)
    names = []
    if kind == "bound_method":
        class Rec:
            def handle(self, exc):
                names.append(type(exc).__name__)
        return Rec().handle, lambda: list(names)
    return (lambda exc: names.append(type(exc).__name__)), \
        (lambda: list(names))


def count(nodes, key):
    return sum(1 for e in elems(nodes) if key in e["stmts"])


class OnError(Part):
    name = "onerror"
    examples = {"quick": 1500, "thorough": 40000}
    floors = {"handled": 0.15, "nested": 0.05}

    def strategy(self, tier):
        from hypothesis import strategies as st
        def voids(t):
            # an element that handles errors and is written without an end
            # tag is often one of HTML's void elements (the fallback is the
            # same: start tag, on-error value, end tag)
            case, handler, names = t
            k = 0
            for el in elems(case["nodes"]):
                if "on-error" in el["stmts"] and el.get("selfclose") \
                        and not el.get("ns"):
                    if names[k % len(names)]:
                        el["name"] = names[k % len(names)]
                    k += 1
            return dict(case, handler=handler)
        return st.tuples(
            tstrat.templates(depth=3 if tier == "quick" else 4,
                             onerror=6, fail_p=5, len_ok=False,
                             max_elems=10, ns_elems=True),
            st.sampled_from(HANDLER_KINDS),
            st.lists(st.sampled_from([None, "img", "input", "br", "IMG"]),
                     min_size=3, max_size=3)).map(voids)

    def source_obj(self, case):
        return tmodel.serialize(case["nodes"])

    def sample(self, case):
        return {"source": self.source_obj(case).text(),
                "bindings": case["bindings"]}

    def model(self, case, src, leak=False):
        env = values.env(case["bindings"])
        try:
            r = tmodel.run_model(
                case["nodes"], env, on_error_handler=True, leak=leak,
                locate=tmodel.locator(src))
        except tmodel.ModelUnknown:
            return None
        it = r[3]
        res = ("out", r[1]) if r[0] == "out" else ("exc",
                                                    type(r[1]).__name__)
        return res, it.handler_log, r[2]

    def chameleon(self, case, text):
        from chameleon import PageTemplate
        env = values.env(case["bindings"])
        log = []
        rec, boom = exprs.make_callables(log)
        env["rec"], env["boom"] = rec, boom
        handler, seen = make_handler(case.get("handler", "function"))
        o = run(PageTemplate, text, on_error_handler=handler)
        if not o.ok:
            return ("compile-exc", o.exc_name), seen(), log
        o = run(o.value.render, **env)
        if not o.ok:
            return ("exc", o.exc_name), seen(), log
        return ("out", o.value), seen(), log

    def _info(self, case):
        src = self.source_obj(case)
        m = self.model(case, src)
        return src, m

    def nontrivial(self, case):
        src, m = self._info(case)
        return m is not None and len(m[1]) >= 1

    def labels(self, case):
        src, m = self._info(case)
        if m is None:
            yield "model_unknown"
            return
        if m[1]:
            yield "handled"
        if len(m[1]) >= 2:
            yield "handled2"
        if m[0][0] == "exc":
            yield "propagates"
        # nesting of on-error elements
        def depth(ns, d=0):
            best = d
            for n in ns:
                if n[0] == "elem":
                    dd = d + (1 if "on-error" in n[1]["stmts"] else 0)
                    best = max(best, depth(n[1]["children"], dd))
            return best
        if depth(case["nodes"]) >= 2:
            yield "nested"

    def oracle(self, case):
        src = self.source_obj(case)
        text = src.text()
        m = self.model(case, src)
        if m is None:
            return None            # model cannot predict (counted by label)
        got = self.chameleon(case, text)
        exp_res, exp_h, exp_log = m
        got_res, got_h, got_log = got
        if got_res == exp_res and got_h == exp_h and \
                canonical(got_log) == canonical(exp_log):
            return None
        detail = {"source": text, "bindings": case["bindings"],
                  "got": got_res, "expected": exp_res, "handler": got_h,
                  "expected_handler": exp_h, "log": got_log,
                  "model_log": exp_log}
        # deviation model of K5 (locals of an abandoned element leak)
        if exp_h:
            lm = self.model(case, src, leak=True)
            if lm is not None and (got_res, got_h) == (lm[0], lm[1]) and \
                    canonical(got_log) == canonical(lm[2]):
                return Mismatch("onerror:K5", detail)
        if got_res != exp_res:
            return Mismatch("onerror:result %s vs %s" % (
                got_res[0] + (":" + got_res[1] if got_res[0] != "out" else ""),
                exp_res[0] + (":" + exp_res[1] if exp_res[0] != "out"
                              else "")), detail)
        if got_h != exp_h:
            return Mismatch("onerror:handler calls", detail)
        return Mismatch("onerror:call log", detail)

    def known(self, case, mismatch):
        return "K5" if mismatch.bucket == "onerror:K5" else None


class Indirect(Part):
    """The failure comes from code the on-error element does not evaluate
    itself: a macro rendered in place, a used macro, a slot filler, the
    translation function."""
    name = "indirect"
    examples = {"quick": 200, "thorough": 4000}

    def strategy(self, tier):
        from hypothesis import strategies as st
        return st.fixed_dictionaries({
            "kind": st.sampled_from(["inplace_macro", "use_macro",
                                     "slot_filler", "translate",
                                     "onerror_on_filler",
                                     "nested_control"]),
            "cls": st.sampled_from(["ValueError", "KeyError", "OSError",
                                    "CustomError", "RecursionError"]),
            "attrs": st.sampled_from(["", ' class="c"', " id='i' title=\"t\""]),
            "mode": st.sampled_from(["text", "structure", "position"]),
            "pre": st.sampled_from(["", "before ", "<b>x</b>"]),
            # something the guarded element evaluates itself, successfully,
            # before the failure happens elsewhere
            "inner_pre": st.sampled_from(["", "${1 + 1}", "${'ok'} "]),
            # literal text of the fallback (a constant string: expression)
            "fb": st.sampled_from(["<i>E</i>", "<i>E</i>",
                                   "it's \"q\" & <i>", "Can't load",
                                   " padded ", "a  b\tc", "é &amp; x"]),
        })

    def nontrivial(self, case):
        return case["kind"] != "nested_control"

    def labels(self, case):
        yield case["kind"]

    def oracle(self, case):
        from chameleon import PageTemplate
        cls = case["cls"]
        import html
        lit = case.get("fb", "<i>E</i>")
        position = case["mode"] == "position"
        if position:
            lit = "at ${error.lineno}:${error.offset}"
        fb = "string:" + lit if case["mode"] != "structure" else \
            "structure string:" + lit
        ip = case.get("inner_pre", "")
        oe = ' tal:on-error="%s"' % fb.replace("&", "&amp;").replace(
            "<", "&lt;").replace('"', "&quot;")
        # (what tal:content with the same expression inserts: as text only
        # the three markup characters are escaped)
        exp_fb = html.escape(lit, quote=False) if case["mode"] == "text" \
            else lit
        if position:
            exp_fb = "at @@"
        a = case["attrs"]
        pre = case["pre"]
        env = {}
        hlog = []
        rec, boom = exprs.make_callables([])
        env["boom"] = boom
        cfg = {"on_error_handler": lambda e: hlog.append(type(e).__name__)}
        k = case["kind"]
        fail = "${boom('%s', 'T')}" % cls
        if k == "inplace_macro":
            src = ("<r>%s<div%s%s>%s<p metal:define-macro=\"m\">x%s</p></div>"
                   "after</r>" % (pre, a, oe, ip, fail))
        elif k == "use_macro":
            env["lib"] = PageTemplate(
                '<p metal:define-macro="m">x%s</p>' % fail)
            src = ("<r>%s<div%s%s>%s<p metal:use-macro=\"lib.macros['m']\">u"
                   "</p></div>after</r>" % (pre, a, oe, ip))
        elif k == "slot_filler":
            env["lib"] = PageTemplate(
                '<p metal:define-macro="m">m<div%s%s>%s<i metal:define-slot='
                '"s">d</i></div>z</p>' % (a, oe, ip), **cfg)
            src = ("<r>%s<p metal:use-macro=\"lib.macros['m']\">"
                   "<u metal:fill-slot=\"s\">f%s</u></p>after</r>" % (
                       pre, fail))
        elif k == "onerror_on_filler":
            # the element that fills the slot carries the handler itself
            env["lib"] = PageTemplate(
                '<p metal:define-macro="m">m<i metal:define-slot="s">d</i>'
                'z</p>')
            src = ("<r>%s<p metal:use-macro=\"lib.macros['m']\">"
                   "<u%s%s metal:fill-slot=\"s\">f%s</u></p>after</r>" % (
                       pre, a, oe, fail))
        elif k == "translate":
            def translate(msgid, **kw):
                # (the fallback of an element with i18n:translate="" is
                # offered to the translation function as well)
                if msgid == "static text":
                    boom(cls, "T")
                return kw.get("default") or msgid
            cfg["translate"] = translate
            src = ("<r>%s<div%s%s i18n:translate=\"\">static text</div>"
                   "after</r>" % (pre, a, oe))
        else:
            src = ("<r>%s<div%s%s>x%s</div>after</r>" % (pre, a, oe, fail))
        o = run(PageTemplate, src, **cfg)
        if o.ok:
            o = run(o.value.render, **env)
        detail = {"source": src, "kind": k, "class": cls}
        if not o.ok:
            return Mismatch("indirect:%s propagates %s" % (k, o.exc_name),
                            dict(detail, outcome=o.brief()))
        if k == "onerror_on_filler":
            want = "<r>%s<p>m<u%s>%s</u>z</p>after</r>" % (pre, a, exp_fb)
        elif k == "slot_filler":
            want = "<r>%s<p>m<div%s>%s</div>z</p>after</r>" % (pre, a, exp_fb)
        else:
            want = "<r>%s<div%s>%s</div>after</r>" % (pre, a, exp_fb)
        if position and k != "translate":
            # the reported position is that of the failing expression (in
            # the template it stands in) or unknown - never that of another
            # expression
            import re
            head, tail = want.split("@@")
            m = re.match(re.escape(head) + r"(\d*):(\d*)" + re.escape(tail)
                         + "$", o.value)
            if m is None:
                return Mismatch("indirect:%s output differs" % k, dict(
                    detail, got=o.value, expected=want))
            needle = "boom('%s', 'T')" % cls
            where = src if needle in src else getattr(
                env.get("lib"), "body", "")
            off = where.find(needle)
            before = where[:off]
            true = (str(before.count("\n") + 1),
                    str(off - before.rfind("\n") - 1))
            ok = [("", ""), true]
            if k == "use_macro":
                # (the macro call itself is an expression of the guarded
                # element: the call site is a true answer as well)
                c = src.find("lib.macros['m']")
                ok.append((str(src[:c].count("\n") + 1),
                           str(c - src[:c].rfind("\n") - 1)))
            if m.groups() not in ok:
                return Mismatch("indirect:%s error position is that of "
                                "another expression" % k, dict(
                                    detail, got=m.groups(), failing_at=true))
        elif position:
            pass
        elif o.value != want:
            return Mismatch("indirect:%s output differs" % k, dict(
                detail, got=o.value, expected=want))
        if hlog != [cls]:
            return Mismatch("indirect:%s handler calls" % k, dict(
                detail, handler=hlog))
        return None


class Deferred(Part):
    """Failures of every origin inside on-error elements of a template
    compiled with strict=False: expressions that do not compile (deferred
    to the moment they are reached), ordinary run-time failures, after an
    inner handler has already recovered; the fallback reads error.type and
    error.lineno / error.offset, which must be those of the failing
    expression (the generator knows where it wrote it)."""
    name = "deferred"
    examples = {"quick": 400, "thorough": 10000}

    INVALID = ["bad%d ///", "%d +", "x%d ==", "%d 7", "not %d not"]
    RUNTIME = [("missing%d", "NameError"), ("%d/0", "ZeroDivisionError"),
               ("[][%d]", "IndexError"), ("{}['k%d']", "KeyError")]

    def strategy(self, tier):
        from hypothesis import strategies as st
        unit = st.fixed_dictionaries({
            "pre": st.sampled_from(["", "text ", "${ok}", "inner", "inner2",
                                    "<u>v</u>"]),
            "kind": st.sampled_from(["invalid", "invalid", "runtime",
                                     "none"]),
            "shape": st.integers(0, 4),
            "site": st.sampled_from(["interp", "content", "attr", "define",
                                     "condition"]),
            "gap": st.sampled_from(["", " ", "\n", "\n     ", "\n\n  "]),
            "attrs": st.sampled_from(["", ' class="c"']),
            "indent": st.sampled_from(["", "  ", "\t"]),
        })
        return st.fixed_dictionaries({
            "units": st.lists(unit, min_size=1, max_size=4),
            "strict": st.sampled_from([False, False, False, True]),
            "handler": st.sampled_from(HANDLER_KINDS),
        })

    REPORT = ("string:${error.type.__name__} ${error.lineno}:"
              "${error.offset}")

    def build(self, case):
        """(source, expected output, expected handler log, any invalid)"""
        src, out, hlog = ["<div>"], ["<div>"], []
        marks = []
        invalid = False
        for n, u in enumerate(case["units"]):
            num = 70 + n * 3
            src.append("\n" + u["indent"])
            out.append("\n" + u["indent"])
            src.append('<p%s tal:on-error="%s">' % (u["attrs"], self.REPORT))
            body_out = []
            pre = u["pre"]
            if pre in ("inner", "inner2"):
                src.append('<b tal:on-error="string:inner">${%d/0}</b>'
                           % (num + 1))
                body_out.append("<b>inner</b>")
                hlog.append("ZeroDivisionError")
                if pre == "inner2":
                    src.append('<b tal:on-error="string:two" tal:content='
                               '"missing%d" />' % (num + 2))
                    body_out.append("<b>two</b>")
                    hlog.append("NameError")
            elif pre == "${ok}":
                src.append(pre)
                body_out.append("fine")
            else:
                src.append(pre)
                body_out.append(pre)
            src.append(u["gap"])
            body_out.append(u["gap"])
            if u["kind"] == "none":
                src.append("end</p>")
                out.append("<p%s>%send</p>" % (u["attrs"],
                                               "".join(body_out)))
                continue
            if u["kind"] == "invalid":
                shape = self.INVALID[u["shape"] % len(self.INVALID)]
                text = shape % num
                cls = "ExpressionError"
                invalid = True
            else:
                shape, cls = self.RUNTIME[u["shape"] % len(self.RUNTIME)]
                text = shape % num
            site = u["site"]
            if site == "interp":
                src.append("${")
                marks.append((len("".join(src)), n))
                src.append(text + "}")
            else:
                head = {"content": '<i tal:content="',
                        "attr": '<i title="${',
                        "define": '<i tal:define="v ',
                        "condition": '<i tal:condition="'}[site]
                src.append(head)
                marks.append((len("".join(src)), n))
                src.append(text + ('}">c</i>' if site == "attr"
                                   else '">c</i>'))
            src.append("end</p>")
            hlog.append(cls)
            out.append("<p%s>%s " % (u["attrs"], cls))
            out.append(("@", n))
            out.append("</p>")
        src.append("\n</div>")
        out.append("\n</div>")
        text = "".join(src)
        pos = dict((n, off) for off, n in marks)
        res = []
        for piece in out:
            if isinstance(piece, tuple):
                off = pos[piece[1]]
                before = text[:off]
                res.append("%d:%d" % (before.count("\n") + 1,
                                      off - before.rfind("\n") - 1))
            else:
                res.append(piece)
        return text, "".join(res), hlog, invalid

    def nontrivial(self, case):
        return any(u["kind"] == "invalid" for u in case["units"]) and \
            not case["strict"]

    def labels(self, case):
        for u in case["units"]:
            yield u["kind"] + "_" + u["site"]
            if u["pre"].startswith("inner") and u["kind"] != "none":
                yield "after_inner_handler"
        yield "handler_" + case["handler"]

    def sample(self, case):
        return {"source": self.build(case)[0], "strict": case["strict"]}

    def oracle(self, case):
        from chameleon import PageTemplate
        from chameleon.exc import ExpressionError
        text, want, want_h, invalid = self.build(case)
        handler, seen = make_handler(case["handler"])
        detail = {"source": text, "strict": case["strict"],
                  "handler": case["handler"]}
        o = run(PageTemplate, text, strict=case["strict"],
                on_error_handler=handler)
        if case["strict"] and invalid:
            if o.ok or not isinstance(o.exc, ExpressionError):
                return Mismatch("deferred:strict compilation accepted an "
                                "invalid expression", detail)
            return None
        if not o.ok:
            return Mismatch("deferred:compile raises " + o.exc_name,
                            dict(detail, outcome=o.brief()))
        o = run(o.value.render, ok="fine")
        if not o.ok:
            return Mismatch("deferred:propagates " + o.exc_name,
                            dict(detail, outcome=o.brief()))
        detail.update(got=o.value, expected=want, handler_calls=seen(),
                      expected_handler_calls=want_h)
        if o.value != want:
            return Mismatch("deferred:output differs", detail)
        if seen() != want_h:
            return Mismatch("deferred:handler calls", detail)
        return None


CHECK = Check(
    "C13", "fault_enumeration",
    rule=("C01 templates with tal:on-error on random elements x planted "
          "failures (each generated expression is replaced with probability "
          "1/8 by a logging call that raises one of 15 Exception classes or, "
          "rarely, KeyboardInterrupt/SystemExit/RecursionError) x 9 fallback "
          "kinds, with a recording on_error_handler; non-trivial = the model "
          "handles at least one failure; distinct by sha1 of the case"),
    parts=[OnError(), Indirect(), Deferred()],
    assumptions=[
        "fallback tags are emitted only when the element has no tal:omit-tag "
        "at all and is not in the tal namespace (characterisation)",
        "cases whose fallback reads error.lineno/offset of a failure that is "
        "not a planted one are skipped (label model_unknown)",
        "K5: a mismatch is attributed to the known finding only if the "
        "deviation model (definitions of the abandoned element are not "
        "undone) reproduces result, handler calls and call log exactly",
    ],
    technique="Hypothesis template generation with planted faults + "
              "reference interpreter with rollback semantics",
)
