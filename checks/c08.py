"""C08 - tal:repeat iterates any iterable and exposes correct repeat
variables.

Stage  positions   exhaustive: every length 0..60 (quick) / 0..300 (thorough)
                   plus boundary lengths around 26, 26**2+26 and 3999, every
                   position: all repeat variables read (i) through
                   RepeatDict/RepeatItem directly and (ii) through a rendered
                   template, against independent closed forms.
Part   loops       generated templates: iterable kinds, tuple unpacking,
                   nesting 1..3 with reused and distinct names, probes of
                   repeat.x.* / repeat['x'], placements; reference model
                   below; for ordinary elements on their own line the whole
                   output (separators included) is compared exactly, else the
                   output modulo whitespace.
"""
from __future__ import annotations

import multiprocessing
import re

from hypothesis import strategies as st

from vlib import values
from vlib.cham import run
from vlib.harness import Check, Mismatch, Part, Stage, NCPU

VARS = ["index", "number", "even", "odd", "parity", "start", "end",
        "length", "letter", "Letter", "roman", "Roman"]


# --- independent closed forms ---------------------------------------------

def doc_letter(i, base="a"):
    """Documented sequence: a..z, aa..az, ba..bz, ..., za..zz, aaa..."""
    n = i + 1                      # bijective base-26 numeral of i+1
    s = ""
    while n > 0:
        n, r = divmod(n - 1, 26)
        s = chr(ord(base) + r) + s
    return s


def positional_letter(i, base="a"):
    """Deviation model of known finding K2 (plain base 26, 'a' = 0)."""
    s = ""
    while True:
        i, r = divmod(i, 26)
        s = chr(ord(base) + r) + s
        if not i:
            return s


ONES = ["", "I", "II", "III", "IV", "V", "VI", "VII", "VIII", "IX"]
TENS = ["", "X", "XX", "XXX", "XL", "L", "LX", "LXX", "LXXX", "XC"]
HUND = ["", "C", "CC", "CCC", "CD", "D", "DC", "DCC", "DCCC", "CM"]


def roman(n):
    return "M" * (n // 1000) + HUND[n // 100 % 10] + TENS[n // 10 % 10] + \
        ONES[n % 10]


def expected_vars(i, length):
    return {
        "index": i, "number": i + 1, "even": i % 2 == 0, "odd": i % 2 == 1,
        "parity": "even" if i % 2 == 0 else "odd", "start": i == 0,
        "end": i == length - 1, "length": length,
        "letter": doc_letter(i), "Letter": doc_letter(i, "A"),
        "roman": roman(i + 1).lower(), "Roman": roman(i + 1),
    }


def normalise(name, v):
    if name in ("even", "odd", "start", "end"):
        return bool(v)
    if name in ("index", "number", "length"):
        return int(v)
    return str(v)


def diff_vars(got, i, length):
    """Compare; returns (list of wrong names, only_K2)"""
    exp = expected_vars(i, length)
    wrong = [n for n in VARS if normalise(n, got[n]) != exp[n]]
    k2 = bool(wrong) and all(
        n in ("letter", "Letter") and i >= 26 and
        str(got[n]) == positional_letter(i, "a" if n == "letter" else "A")
        for n in wrong)
    return wrong, k2, exp


PROBE_TMPL = (
    '<t tal:repeat="x seq">${repeat.x.index},${repeat.x.number},'
    "${'1' if repeat.x.even else '0'},${'1' if repeat.x.odd else '0'},"
    "${repeat.x.parity},${'1' if repeat.x.start else '0'},"
    "${'1' if repeat['x'].end else '0'},${repeat.x.length},"
    "${repeat.x.letter},${repeat['x'].Letter},${repeat.x.roman},"
    "${repeat.x.Roman};</t>")


def _check_length(args):
    length, kind = args
    from chameleon import PageTemplate
    from chameleon.tal import RepeatDict
    bad, known = [], 0
    n = 0

    def make():
        if kind == "list":
            return list(range(length))
        if kind == "gen":
            return (k for k in range(length))
        if kind == "range":
            return range(length)
        if kind == "tuple":
            return tuple(range(length))
        if kind == "seqobj":
            from vlib.values import SeqObj
            return SeqObj(list(range(length)))
        if kind == "userlist":
            import collections
            return collections.UserList(range(length))
        return dict.fromkeys(range(length)).keys()
    # (i) direct API
    rd = RepeatDict({})
    it, ln = rd("x", make())
    if ln != length:
        bad.append(({"length": length, "kind": kind, "api": "RepeatDict",
                     "got_length": ln}, "length"))
    for i, _item in enumerate(it):
        item = rd["x"]
        got = {}
        for name in VARS:
            try:
                got[name] = getattr(item, name)
            except Exception as e:  # noqa: BLE001 - outcome under test
                got[name] = "RAISES " + type(e).__name__
        n += 1
        wrong, k2, exp = diff_vars(got, i, length)
        if wrong:
            if k2:
                known += 1
            elif len(bad) < 3:
                bad.append(({"length": length, "position": i, "kind": kind,
                             "api": "RepeatItem",
                             "wrong": {w: [str(got[w]), exp[w]]
                                       for w in wrong}}, ",".join(wrong)))
    # (ii) through a template
    o = run(PageTemplate(PROBE_TMPL).render, seq=make())
    if not o.ok:
        bad.append(({"length": length, "kind": kind, "api": "template",
                     "outcome": o.brief()}, "render raises " + o.exc_name))
        return n, bad, known
    rows = [r for r in o.value.replace("<t>", "").replace("</t>", "")
            .split(";") if r.strip()]
    if len(rows) != length:
        bad.append(({"length": length, "kind": kind, "api": "template",
                     "rows": len(rows)}, "row count"))
        return n, bad, known
    for i, row in enumerate(rows):
        f = row.strip().split(",")
        got = dict(zip(VARS, [f[0], f[1], f[2] == "1", f[3] == "1", f[4],
                              f[5] == "1", f[6] == "1", f[7], f[8], f[9],
                              f[10], f[11]]))
        n += 1
        wrong, k2, exp = diff_vars(got, i, length)
        if wrong:
            if k2:
                known += 1
            elif len(bad) < 3:
                bad.append(({"length": length, "position": i, "kind": kind,
                             "api": "template",
                             "wrong": {w: [str(got[w]), exp[w]]
                                       for w in wrong}}, ",".join(wrong)))
    return n, bad, known


class Positions(Stage):
    name = "positions"

    def lengths(self, tier):
        top = 60 if tier == "quick" else 300
        extra = [675, 676, 677, 701, 702, 703, 704, 3998, 3999, 4000, 4001]
        if tier == "thorough":
            extra += [17575, 17576, 18278, 18279]
        return list(range(0, top + 1)) + extra

    def oracle(self, case):
        n, bad, known = _check_length((case["length"], case.get("kind",
                                                                  "list")))
        self._known = known
        for c, what in bad:
            if c.get("position") == case.get("position", c.get("position")):
                return Mismatch("positions:" + what, c)
        if bad:
            return Mismatch("positions:" + bad[0][1], bad[0][0])
        if known:
            return Mismatch("positions:K2", {"length": case["length"]})
        return None

    def known(self, case, mismatch):
        return "K2" if mismatch.bucket == "positions:K2" else None

    def run(self, tier, seed, check):
        kinds = ["list", "gen", "range", "tuple", "keys", "seqobj",
                 "userlist"]
        jobs = []
        for ln in self.lengths(tier):
            if ln <= 60:
                for k in kinds:
                    jobs.append((ln, k))
            else:
                jobs.append((ln, kinds[ln % len(kinds)]))
        ctx = multiprocessing.get_context("fork")
        with ctx.Pool(NCPU) as pool:
            res = pool.map(_check_length, jobs, chunksize=2)
        total = sum(r[0] for r in res)
        known = sum(r[2] for r in res)
        failures = []
        for _, bad, _k in res:
            for c, what in bad:
                failures.append((c, Mismatch("positions:" + what, c)))
        return {
            "evaluations": total,
            "nontrivial_ids": ["len%d-%s" % j for j in jobs if j[0] >= 2],
            "failures": failures[:6],
            "known": {"K2": known} if known else {},
            "samples": [{"length": 703, "position": 702,
                         "expected": {k: str(v) for k, v in
                                      expected_vars(702, 703).items()}}],
            "info": {"exhaustive": True, "lengths": len(self.lengths(tier)),
                     "max_contiguous_length": 60 if tier == "quick" else 300,
                     "positions_checked": total,
                     "known_K2_positions": known},
        }


# --- generated loop templates ---------------------------------------------

class ModelRaises(Exception):
    """The reference model predicts that rendering raises this class."""


# (also names of dictionary methods: repeat.NAME is the loop's state, not
# a method of the repeat dictionary)
NAMES = ["x", "y", "item", "i", "items", "keys", "values", "get", "pop",
         "copy", "update", "x", "i"]
TAGS = ["li", "b", "tr", "div"]


def seq_strategy(depth):
    ints = st.lists(st.integers(0, 3), max_size=4)
    words = st.lists(st.sampled_from(["a", "bc", "d", "é"]), max_size=4)

    def wrap(kind, items):
        return [kind, [(["int", v] if isinstance(v, int) else ["str", v])
                       for v in items]]
    elems = st.one_of(ints, words)
    return st.one_of(
        st.builds(lambda l: wrap("list", l), elems),
        st.builds(lambda l: wrap("tuple", l), elems),
        st.builds(lambda l: wrap("gen", l), elems),
        st.builds(lambda l: wrap("userlist", l), elems),
        st.builds(lambda l: wrap("seqobj", l), elems),
        st.builds(lambda n: ["range", n], st.integers(0, 4)),
        st.builds(lambda l: ["keys", [[v, ["none"]] for v in dict.fromkeys(l)]],
                  words),
        st.builds(lambda l: ["items", [[v, ["int", k]] for k, v in
                                       enumerate(dict.fromkeys(l))]], words),
        st.builds(lambda l: ["str", "".join(l)], words),
        # sets iterate in an order of their own (for small integers: by
        # hash value modulo the table size - 8 comes before 1): the items
        # are bound in THAT order
        st.builds(lambda k, l: [k, [["int", v] for v in l]],
                  st.sampled_from(["set", "frozenset"]),
                  st.lists(st.sampled_from([8, 1, 16, 3, 24, 2, 0, 9]),
                           max_size=4, unique=True)),
        st.just(["none"]),
        # a mapping itself whose keys are pairs: iterating it gives the keys
        st.builds(lambda l: ["dict", [[k, ["int", n]] for n, k in
                                      enumerate(dict.fromkeys(l))]],
                  st.lists(st.sampled_from(["ab", "cd", "xy", "é1"]),
                           max_size=3)),
    )


@st.composite
def loops(draw, depth):
    seq = draw(seq_strategy(depth))
    unpack = seq[0] in ("items", "dict")
    names = ["k", "v"] if unpack else [draw(st.sampled_from(NAMES))]
    inner = None
    if depth > 1 and draw(st.booleans()):
        inner = draw(loops(depth - 1))
    derived = False
    if inner is not None and not unpack and len(inner["names"]) == 1 \
            and draw(st.integers(0, 2)) == 0:
        # inner sequence derived from the outer item (range(x) for ints)
        if seq[0] in ("list", "tuple", "gen") and seq[1] and \
                all(e[0] == "int" for e in seq[1]) or seq[0] == "range":
            derived = True
    return {
        "names": names, "seq": seq, "inner": inner, "derived": derived,
        "tag": draw(st.sampled_from(TAGS)),
        "indent": draw(st.sampled_from(["", " ", "  ", "    ", "        ",
                                        "   ", "\t", " \t"])),
        "probe_repeat": draw(st.booleans()),
        "attr": draw(st.booleans()),
    }


class Loops(Part):
    name = "loops"
    examples = {"quick": 1200, "thorough": 30000}
    floors = {"nested": 0.2, "ownline": 0.3}

    def strategy(self, tier):
        return st.fixed_dictionaries({
            "loop": loops(3),
            "placement": st.sampled_from(
                ["ownline", "ownline", "ownline", "first", "inline",
                 "sibling", "talns", "first_indented"]),
        })

    # -- source text -------------------------------------------------------
    def _varname(self, path):
        return "s" + "_".join(map(str, path))

    def element(self, loop, path, placement, bindings):
        """Return source of the repeated element (recursively)."""
        names = loop["names"]
        tgt = names[0] if len(names) == 1 else "(%s)" % ", ".join(names)
        if loop.get("_derived_from"):
            expr = "range(%s)" % loop["_derived_from"]
        else:
            var = self._varname(path)
            bindings[var] = loop["seq"]
            expr = var
        probes = "[" + "|".join("${%s}" % n for n in names)
        if loop["probe_repeat"] and len(names) == 1:
            n = names[0]
            probes += ("|${repeat.%s.index}/${repeat['%s'].length}"
                       "|${repeat.%s.letter}|${'E' if repeat.%s.end else 'e'}"
                       % (n, n, n, n))
        probes += "]"
        body = probes
        if loop["inner"] is not None:
            inner = dict(loop["inner"])
            if loop["derived"] and len(names) == 1:
                inner["_derived_from"] = names[0]
            body += "\n" + inner["indent"] + \
                self.element(inner, path + [0], "ownline", bindings) + \
                "\n" + loop["indent"]
        attr = ' class="c${%s}"' % names[0] if loop["attr"] else ""
        if placement == "talns":
            return '<tal:block repeat="%s %s">%s</tal:block>' % (
                tgt, expr, body)
        return '<%s tal:repeat="%s %s"%s>%s</%s>' % (
            loop["tag"], tgt, expr, attr, body, loop["tag"])

    def source(self, case):
        bindings = {}
        el = self.element(case["loop"], [0], case["placement"], bindings)
        ind = case["loop"]["indent"]
        p = case["placement"]
        if p in ("ownline", "talns"):
            src = "<ul>\n" + ind + el + "\n</ul>"
        elif p == "first":
            src = el
        elif p == "first_indented":
            # the first line of the template is a line, too
            src = ind + el
        elif p == "inline":
            src = "<p>abc " + el + "</p>"
        else:
            src = "<p><i>s</i>" + el + "</p>"
        return src, bindings

    # -- reference model ---------------------------------------------------
    def model(self, loop, env, reg, placement, tabs_as_spaces, restore=True):
        """Expected output of a repeated element.  ``reg`` is the repeat
        registry name -> [index, length] (mutable state of the loop that
        registered the name last).  ``restore=False`` is the deviation
        model of known finding K11: the registry entry of an enclosing
        loop with the same name is not restored when the inner loop ends."""
        import html
        names = loop["names"]
        if loop.get("_derived_from"):
            seq = range(env[loop["_derived_from"]])
        else:
            seq = env[loop["_var"]]
        items = list(seq) if seq is not None else []
        length = len(items)
        outs = []
        key = names[0] if len(names) == 1 else None
        saved = reg.get(key)
        state = [-1, length]
        if key is not None:
            reg[key] = state
        for i, item in enumerate(items):
            env2 = dict(env)
            state[0] = i
            if len(names) == 1:
                env2[names[0]] = item
            else:
                a, b = item
                env2[names[0]], env2[names[1]] = a, b
            probes = "[" + "|".join(html.escape(str(env2[n]), quote=False)
                                     for n in names)
            if loop["probe_repeat"] and len(names) == 1:
                ri, rl = reg[key]
                if ri < 0:
                    raise ModelRaises("TypeError")
                probes += "|%d/%d|%s|%s" % (
                    ri, rl, doc_letter(ri), "E" if ri == rl - 1 else "e")
            probes += "]"
            body = probes
            if loop["inner"] is not None:
                inner = loop["inner"]
                body += "\n" + inner["indent"] + self.model(
                    inner, env2, reg, "ownline", tabs_as_spaces, restore) + \
                    "\n" + loop["indent"]
            attr = ' class="c%s"' % html.escape(str(env2[names[0]])) \
                if loop["attr"] else ""
            if placement == "talns":
                outs.append(body)
            else:
                outs.append("<%s%s>%s</%s>" % (loop["tag"], attr, body,
                                                loop["tag"]))
        if restore and key is not None:
            if saved is None:
                reg.pop(key, None)
            else:
                reg[key] = saved
        ind = loop["indent"]
        if tabs_as_spaces:
            ind = " " * len(ind)
        sep = "" if placement == "talns" else "\n" + ind
        return sep.join(outs)

    def prepare(self, case):
        """Attach variable names / derived links exactly as source() does."""
        import copy
        loop = copy.deepcopy(case["loop"])

        def walk(lp, path):
            lp["_var"] = self._varname(path)
            if lp["inner"] is not None:
                if lp["derived"] and len(lp["names"]) == 1:
                    lp["inner"]["_derived_from"] = lp["names"][0]
                walk(lp["inner"], path + [0])
        walk(loop, [0])
        return loop

    def expected(self, case, tabs_as_spaces=False, restore=True):
        src, bindings = self.source(case)
        env = values.env(bindings)
        loop = self.prepare(case)
        body = self.model(loop, env, {}, case["placement"], tabs_as_spaces,
                          restore)
        ind = case["loop"]["indent"]
        p = case["placement"]
        if p in ("ownline", "talns"):
            return "<ul>\n" + ind + body + "\n</ul>"
        if p == "first":
            return body
        if p == "first_indented":
            return ind + body
        if p == "inline":
            return "<p>abc " + body + "</p>"
        return "<p><i>s</i>" + body + "</p>"

    def _has_tabs(self, loop):
        return "\t" in loop["indent"] or (
            loop["inner"] is not None and self._has_tabs(loop["inner"]))

    def _depth(self, loop):
        return 1 + (self._depth(loop["inner"]) if loop["inner"] else 0)

    def _maxlen(self, loop):
        s = loop["seq"]
        n = s[1] if s[0] == "range" else (len(s[1]) if s[0] != "none" else 0)
        return max(n, self._maxlen(loop["inner"]) if loop["inner"] else 0)

    def nontrivial(self, case):
        lp = case["loop"]
        return self._maxlen(lp) >= 2 or self._depth(lp) >= 2 or \
            lp["seq"][0] == "gen"

    def labels(self, case):
        lp = case["loop"]
        yield case["placement"]
        if self._depth(lp) >= 2:
            yield "nested"
            if lp["inner"]["names"] == lp["names"]:
                yield "reused_name"
        yield "seq_" + lp["seq"][0]
        if self._has_tabs(lp):
            yield "tabs"

    def sample(self, case):
        src, b = self.source(case)
        return {"source": src, "bindings": b,
                "expected": self.expected(case)}

    def _predict(self, case, **kw):
        try:
            return ("out", self.expected(case, **kw))
        except ModelRaises as e:
            return ("exc", e.args[0])

    def _reused(self, loop, seen=()):
        if len(loop["names"]) == 1 and loop["names"][0] in seen:
            return True
        return loop["inner"] is not None and self._reused(
            loop["inner"], tuple(seen) + tuple(loop["names"]))

    def oracle(self, case):
        from chameleon import PageTemplate
        src, bindings = self.source(case)
        o = run(PageTemplate, src)
        if not o.ok:
            return Mismatch("loops:compile raises " + o.exc_name,
                            {"source": src, "outcome": o.brief()})
        o = run(o.value.render, **values.env(bindings))
        got = ("out", o.value) if o.ok else ("exc", o.exc_name)
        exp = self._predict(case)
        exact = case["placement"] in ("ownline", "first_indented")

        def same(a, b):
            if a[0] != b[0]:
                return False
            if a[0] == "exc" or exact:
                return a[1] == b[1]
            return re.sub(r"\s+", "", a[1]) == re.sub(r"\s+", "", b[1])
        if same(got, exp):
            return None
        detail = {"source": src, "bindings": bindings, "got": got,
                  "expected": exp}
        # deviation models of the known findings (and their combination)
        tabs = self._has_tabs(case["loop"])
        reused = self._reused(case["loop"])
        if tabs and same(got, self._predict(case, tabs_as_spaces=True)):
            return Mismatch("loops:K3", detail)
        if reused and same(got, self._predict(case, restore=False)):
            return Mismatch("loops:K11", detail)
        if reused and tabs and same(got, self._predict(
                case, restore=False, tabs_as_spaces=True)):
            return Mismatch("loops:K11", detail)
        if got[0] == "exc":
            return Mismatch("loops:render raises " + got[1], detail)
        if exp[0] == "exc":
            return Mismatch("loops:expected " + exp[1], detail)
        ws = re.sub(r"\s+", "", got[1]) == re.sub(r"\s+", "", exp[1])
        return Mismatch(
            "loops:separator differs" if ws else "loops:differs", detail)

    def known(self, case, mismatch):
        return {"loops:K3": "K3", "loops:K11": "K11"}.get(mismatch.bucket)


# -- a rendering inside a rendering ----------------------------------------

TREE_SRC = ('<ul><li tal:repeat="%(v)s nodes">'
            '%(pre)s${%(v)s[0]}(${structure: sub(%(v)s[1])})%(post)s'
            '</li></ul>')
TREE_PROBE = ("${repeat.%(v)s.index}/${repeat.%(v)s.number}/"
              "${repeat.%(v)s.length}/${repeat.%(v)s.letter}/"
              "${'E' if repeat.%(v)s.end else 'e'}"
              "${'S' if repeat.%(v)s.start else 's'}/"
              "${repeat.%(v)s.parity}")


def trees(depth):
    leaf = st.lists(st.tuples(st.integers(0, 9), st.just([])), max_size=3)
    if depth <= 1:
        return leaf
    return st.lists(st.tuples(st.integers(0, 9), trees(depth - 1)),
                    max_size=3)


class Reentrant(Part):
    """The values of repeat[name] belong to the current position of the
    loop of the *current* rendering: a rendering of the same template object
    (a tree that renders its children through itself) or of another one in
    the middle of a loop body does not change what the body reads
    afterwards."""
    name = "reentrant"
    examples = {"quick": 300, "thorough": 6000}
    floors = {"recursive": 0.3}

    def strategy(self, tier):
        return st.fixed_dictionaries({
            "tree": trees(3),
            "var": st.sampled_from(["n", "item", "x"]),
            "probe_before": st.booleans(),
            # the inner rendering: the same template object, another object
            # with the same source, or the same object through its macro
            "inner": st.sampled_from(["self", "self", "twin"]),
        })

    def _recursive(self, tree):
        return any(len(kids) >= 1 for _, kids in tree) and len(tree) >= 2

    def nontrivial(self, case):
        return self._recursive(case["tree"])

    def labels(self, case):
        if self._recursive(case["tree"]):
            yield "recursive"
        yield "inner_" + case["inner"]

    def source(self, case):
        v = case["var"]
        probe = TREE_PROBE % {"v": v}
        return TREE_SRC % {"v": v,
                           "pre": "[" + probe + "]" if case["probe_before"]
                           else "", "post": "[" + probe + "]"}

    def expected(self, case, tree=None):
        tree = case["tree"] if tree is None else tree
        if not tree:
            return "<ul></ul>"
        items = []
        n = len(tree)
        for i, (name, kids) in enumerate(tree):
            probe = "[%d/%d/%d/%s/%s%s/%s]" % (
                i, i + 1, n, doc_letter(i), "E" if i == n - 1 else "e",
                "S" if i == 0 else "s", "odd" if i % 2 else "even")
            sub = self.expected(case, kids) if kids else ""
            items.append("<li>%s%d(%s)%s</li>" % (
                probe if case["probe_before"] else "", name, sub, probe))
        return "<ul>" + "\n".join(items) + "</ul>"

    def oracle(self, case):
        from chameleon import PageTemplate
        src = self.source(case)
        o = run(PageTemplate, src)
        if not o.ok:
            return Mismatch("reentrant:compile raises " + o.exc_name,
                            {"source": src, "outcome": o.brief()})
        t = o.value
        inner = t if case["inner"] == "self" else PageTemplate(src)

        def sub(kids):
            return inner.render(nodes=kids, sub=sub) if kids else ""
        o = run(t.render, nodes=case["tree"], sub=sub)
        got = o.value if o.ok else "exc " + o.exc_name
        exp = self.expected(case)
        if got != exp:
            return Mismatch("reentrant:repeat values after an inner "
                            "rendering (%s)" % case["inner"],
                            {"source": src, "tree": case["tree"],
                             "got": got, "expected": exp})
        return None


CHECK = Check(
    "C08", "exploration",
    rule=("positions: exhaustive over all lengths up to the tier bound and "
          "boundary lengths (26, 702/703, 3999/4000 regions), every position, "
          "five iterable kinds for short lengths, non-trivial = length >= 2; "
          "loops: generated nestings (depth <= 3) of tal:repeat over list/"
          "tuple/generator/range/dict views/str/None with probes of the loop "
          "variables and repeat.x.*, six placements; non-trivial = some "
          "length >= 2, or nesting >= 2, or a one-shot generator; distinct "
          "by sha1 of the case; reentrant: trees (depth <= 3, fan-out <= 3) "
          "rendered by a template that renders the children of each node "
          "through itself (or a twin object) inside the loop body and probes "
          "repeat.x.* before and after, non-trivial = some node of a loop "
          "with >= 2 items has children"),
    parts=[Loops(), Reentrant()],
    stages=[Positions()],
    assumptions=[
        "letter/Letter follow the sequence documented in docs/reference.rst "
        "(a..z, aa..az, ba..); roman numerals above 3999 repeat 'M'",
        "even/odd/start/end are compared by truth value (documented as "
        "'True for ...')",
        "separators are asserted exactly only for ordinary elements on their "
        "own line; other placements are compared modulo whitespace",
        "repeat[name] is not probed after an inner loop that reused the name",
    ],
    technique="exhaustive enumeration of (length, position) against closed "
              "forms + Hypothesis-generated loop nests against a reference "
              "model",
)
