"""C04 - Expressions follow TALES semantics and are evaluated exactly once,
in order.

The C01 template generator is used with TALES-rich expressions: pipes of
1..4 alternatives whose alternatives succeed or raise each exception class
of interest (caught and not caught), type prefixes and their nestings,
string: bodies, attribute->item fallback, names resolved from template
variables before builtins.  Every alternative logs a tag when it is
evaluated.  Oracle: reference evaluation on the expression *tree*
(vlib/exprs.py): rendered text / propagating exception class, and the
ordered call log.  The log is compared after sorting, inside one element
activation, runs of entries that belong to the guard group (case,
condition, repeat, switch) and to the late group (content/replace,
omit-tag, attributes) by statement - an order the property does not fix.
"""
from __future__ import annotations

import re

from vlib import tmodel, tstrat
from vlib.harness import Check, Mismatch
from checks.c01 import Statements, model_outcome, elems

GUARD = {"ca", "c", "rp", "sw"}
LATE = {"ct", "rl", "o", "at", "sa"}
TAG_RE = re.compile(r"^e(\d+)\.([a-z]+)(\d+)")


def canonical(log):
    out, run, key = [], [], None

    def flush():
        run.sort(key=lambda t: t[0])       # stable: keeps order per statement
        out.extend(x for _, x in run)
        del run[:]
    for tag in log:
        m = TAG_RE.match(tag)
        k = None
        if m:
            grp = "g" if m.group(2) in GUARD else (
                "l" if m.group(2) in LATE else None)
            if grp:
                k = (m.group(1), grp)
        if k is None or k != key:
            flush()
        key = k
        if k is None:
            out.append(tag)
        else:
            run.append((int(m.group(3)), tag))
    flush()
    return out


class Tales(Statements):
    name = "tales"
    examples = {"quick": 1500, "thorough": 40000}
    floors = {"pipe_fallback": 0.15, "prefix": 0.1}

    def strategy(self, tier):
        return tstrat.templates(depth=2 if tier == "quick" else 3,
                                tales=True, max_elems=8, dict_attrs=True,
                                dict_rec=True)

    def _stats(self, case):
        from vlib import exprs
        s = {"pipe": 0, "prefix": 0, "boom": 0}

        def walk(x):
            if isinstance(x, list):
                if x and x[0] == "pipe":
                    s["pipe"] += 1
                if x and x[0] == "prefix":
                    s["prefix"] += 1
                if x and x[0] == "boom":
                    s["boom"] += 1
                for y in x:
                    walk(y)
            elif isinstance(x, dict):
                for y in x.values():
                    walk(y)
        walk(case["nodes"])
        return s

    def nontrivial(self, case):
        s = self._stats(case)
        return s["boom"] > 0 or s["prefix"] > 0

    def labels(self, case):
        s = self._stats(case)
        if s["boom"] and s["pipe"]:
            yield "pipe_fallback"
        if s["prefix"]:
            yield "prefix"

    def oracle(self, case):
        src = self.source(case)
        got, log = self.chameleon(case, src)
        last = None
        for order in (tmodel.STMT_ORDER_IMPL, tmodel.STMT_ORDER_DOCS):
            exp, mlog = model_outcome(case["nodes"], case["bindings"], order)
            if got == exp and canonical(log) == canonical(mlog):
                return None
            if last is None:
                last = (exp, mlog)
        exp, mlog = last
        if got != exp:
            kind = "tales:result %s vs %s" % (got[0], exp[0])
            if got[0] != "out":
                kind += ":" + got[1]
            elif exp[0] != "out":
                kind += ":" + exp[1]
        else:
            cl, cm = canonical(log), canonical(mlog)
            if sorted(cl) == sorted(cm):
                kind = "tales:log order"
            elif len(cl) > len(cm):
                kind = "tales:evaluated more than the model"
            else:
                kind = "tales:evaluated less than the model"
        return Mismatch(kind, {"source": src, "bindings": case["bindings"],
                               "got": got, "expected": exp, "log": log,
                               "model_log": mlog})


CHECK = Check(
    "C04", "exploration",
    rule=("C01 templates (depth <= 2 quick / 3 thorough) whose expressions "
          "are TALES pipes of 1..4 alternatives (each alternative succeeds, "
          "raises one of 8 caught or 7 not-caught classes, or fails "
          "naturally), with python:/string:/not:/exists:/structure: prefixes "
          "and nestings, at every statement and interpolation site; "
          "non-trivial = contains a failing alternative or a prefix; "
          "distinct by sha1 of the case"),
    parts=[Tales()],
    assumptions=[
        "the call log is compared modulo the order of statements inside the "
        "guard group and inside the late group of one element activation",
        "structure: is applied to str() of a value only (str of None/bytes "
        "under structure is unspecified)",
    ],
    technique="Hypothesis expression-tree generation + reference evaluation "
              "on the tree + ordered call-log comparison",
)
