"""C04 - Expressions follow TALES semantics and are evaluated exactly once,
in order.

The C01 template generator is used with TALES-rich expressions: pipes of
1..4 alternatives whose alternatives succeed or raise each exception class
of interest (caught and not caught), type prefixes and their nestings,
string: bodies, attribute->item fallback, names resolved from template
variables before builtins.  Every alternative logs a tag when it is
evaluated.  Oracle: reference evaluation on the expression *tree*
(vlib/exprs.py): rendered text / propagating exception class, and the
ordered call log.  The log is compared after sorting, inside one element
activation, runs of entries that belong to the guard group (case,
condition, repeat, switch) and to the late group (content/replace,
omit-tag, attributes) by statement - an order the property does not fix.
"""
from __future__ import annotations

import re

from vlib import tmodel, tstrat
from hypothesis import strategies as st

from vlib.harness import Check, Mismatch, Part
from checks.c01 import Statements, model_outcome, elems

GUARD = {"ca", "c", "rp", "sw"}
LATE = {"ct", "rl", "o", "at", "sa"}
TAG_RE = re.compile(r"^e(\d+)\.([a-z]+)(\d+)")


def canonical(log):
    out, run, key = [], [], None

    def flush():
        run.sort(key=lambda t: t[0])       # stable: keeps order per statement
        out.extend(x for _, x in run)
        del run[:]
    for tag in log:
        m = TAG_RE.match(tag)
        k = None
        if m:
            grp = "g" if m.group(2) in GUARD else (
                "l" if m.group(2) in LATE else None)
            if grp:
                k = (m.group(1), grp)
        if k is None or k != key:
            flush()
        key = k
        if k is None:
            out.append(tag)
        else:
            run.append((int(m.group(3)), tag))
    flush()
    return out


class Tales(Statements):
    name = "tales"
    examples = {"quick": 1500, "thorough": 40000}
    floors = {"pipe_fallback": 0.15, "prefix": 0.1}

    def strategy(self, tier):
        return tstrat.templates(depth=2 if tier == "quick" else 3,
                                tales=True, max_elems=8, dict_attrs=True,
                                dict_rec=True)

    def _stats(self, case):
        from vlib import exprs
        s = {"pipe": 0, "prefix": 0, "boom": 0}

        def walk(x):
            if isinstance(x, list):
                if x and x[0] == "pipe":
                    s["pipe"] += 1
                if x and x[0] == "prefix":
                    s["prefix"] += 1
                if x and x[0] == "boom":
                    s["boom"] += 1
                for y in x:
                    walk(y)
            elif isinstance(x, dict):
                for y in x.values():
                    walk(y)
        walk(case["nodes"])
        return s

    def nontrivial(self, case):
        s = self._stats(case)
        return s["boom"] > 0 or s["prefix"] > 0

    def labels(self, case):
        s = self._stats(case)
        if s["boom"] and s["pipe"]:
            yield "pipe_fallback"
        if s["prefix"]:
            yield "prefix"

    def oracle(self, case):
        src = self.source(case)
        got, log = self.chameleon(case, src)
        last = None
        for order in (tmodel.STMT_ORDER_IMPL, tmodel.STMT_ORDER_DOCS):
            exp, mlog = model_outcome(case["nodes"], case["bindings"], order)
            if got == exp and canonical(log) == canonical(mlog):
                return None
            if last is None:
                last = (exp, mlog)
        exp, mlog = last
        if got != exp:
            kind = "tales:result %s vs %s" % (got[0], exp[0])
            if got[0] != "out":
                kind += ":" + got[1]
            elif exp[0] != "out":
                kind += ":" + exp[1]
        else:
            cl, cm = canonical(log), canonical(mlog)
            if sorted(cl) == sorted(cm):
                kind = "tales:log order"
            elif len(cl) > len(cm):
                kind = "tales:evaluated more than the model"
            else:
                kind = "tales:evaluated less than the model"
        return Mismatch(kind, {"source": src, "bindings": case["bindings"],
                               "got": got, "expected": exp, "log": log,
                               "model_log": mlog})


# -- once per reach; Python scopes ---------------------------------------------

# (expression text, kind of the object it builds)
FRESH_LITS = [
    ("[]", "list"), ("[0, 0]", "list"), ("{}", "dict"), ("{'a': 1}", "dict"),
    ("{0}", "set"), ("[[]]", "nested"), ("([], 1)", "nested"),
    ("nothing.missing | []", "list"), ("undefined_name | {}", "dict"),
    ("list()", "list"), ("[i0]", "list"), ("python: []", "list"),
    ("dict(a=1)", "dict"), ("set()", "set"), ("[] | [1]", "list"),
]
# kind -> (expression that changes the object and shows it, text shown for a
# fresh object built from the texts above: a function of the fresh length)
FRESH_MUT = {
    "list": "acc.append(1) or len(acc)",
    "dict": "acc.update({len(acc) + 7: 1}) or len(acc)",
    "set": "acc.add(len(acc) + 7) or len(acc)",
    "nested": "acc[0].append(1) or len(acc[0])",
}
FRESH_LEN = {"[]": 0, "[0, 0]": 2, "{}": 0, "{'a': 1}": 1, "{0}": 1,
             "[[]]": 0, "([], 1)": 0, "nothing.missing | []": 0,
             "undefined_name | {}": 0, "list()": 0, "[i0]": 1,
             "python: []": 0, "dict(a=1)": 1, "set()": 0, "[] | [1]": 0}

COMP_NAMES = ["x", "q0", "len", "id", "y"]


@st.composite
def reach_cases(draw):
    if draw(st.booleans()):
        lit, kind = draw(st.sampled_from(FRESH_LITS))
        return {"what": "fresh", "lit": lit, "kind": kind,
                "form": draw(st.sampled_from(
                    ["same_element", "child_text", "global", "macro",
                     "attr"])),
                "loops": draw(st.integers(1, 3)),
                "renders": draw(st.integers(1, 3))}
    # comprehensions: the first iterable belongs to the enclosing scope
    v = draw(st.sampled_from(COMP_NAMES))
    w = draw(st.sampled_from([n for n in COMP_NAMES if n != v]))
    elt = draw(st.sampled_from(
        ["{v}", "{v} * 2", "({v}, {w}[0])", "str({v})"]))
    cond = draw(st.sampled_from(["", "", " if {v}", " if {v} in {w}"]))
    shape = draw(st.sampled_from(
        ["[{e} for {v} in {v}{c}]", "sorted({{{e} for {v} in {v}{c}}})",
         "sorted({{{v}: {e} for {v} in {v}{c}}}.items())",
         "list({e} for {v} in {v}{c})",
         "[{e} for {v} in {v}{c} for z in (1, 2)]",
         "[{e} for {w} in {w} for {v} in {v2}{c}]",
         "(lambda {v}: [{e} for {v} in {v}{c}])({v})",
         "[{e} for {v} in {v}{c}] + [{e} for {v} in {v}]",
         "[{e} for {v} in {v}{c}] and {v}"]))
    text = shape.format(e=elt.format(v=v, w=w), v=v, w=w,
                        c=cond.format(v=v, w=w), v2="wv")
    vals = draw(st.lists(st.integers(0, 3), min_size=0, max_size=3))
    wvals = draw(st.lists(st.integers(0, 3), min_size=1, max_size=3))
    return {"what": "comp", "expr": text, "v": v, "w": w, "vals": vals,
            "wvals": wvals,
            "site": draw(st.sampled_from(["content", "interp", "define",
                                          "attr", "condition"]))}


class Reach(Part):
    """Every reach of an expression evaluates it anew (a literal list / dict
    / set is a fresh object each time); inside Python expressions names obey
    Python's scopes with the template variables as the global scope."""
    name = "reach"
    examples = {"quick": 600, "thorough": 12000}
    # (the space of "fresh" cases is finite - 675 combinations: in the
    # thorough tier its share of the distinct cases falls)
    floors = {"fresh": 0.05, "comp": 0.3}

    def strategy(self, tier):
        return reach_cases()

    def labels(self, case):
        yield case["what"]
        if case["what"] == "fresh":
            yield "form_" + case["form"]

    def nontrivial(self, case):
        if case["what"] == "fresh":
            return case["loops"] * case["renders"] > 1 or \
                case["form"] == "macro"
        return True

    def fresh_source(self, case):
        lit, mut = case["lit"], FRESH_MUT[case["kind"]]
        form = case["form"]
        loop = "range(%d)" % case["loops"]
        if form == "same_element":
            body = '<b tal:define="acc %s" tal:content="%s"/>' % (lit, mut)
        elif form == "child_text":
            body = '<b tal:define="acc %s"><u>${%s}</u></b>' % (lit, mut)
        elif form == "global":
            body = '<b tal:define="global acc %s"/><b>${%s}</b>' % (lit, mut)
        elif form == "attr":
            body = '<b tal:define="acc %s" tal:attributes="n %s"/>' % (
                lit, mut)
        else:
            return ('<div tal:define="i0 9"><i metal:define-macro="m" '
                    'tal:omit-tag="">'
                    '<b tal:define="acc %s" tal:content="%s"/></i>' % (
                        lit, mut)
                    + '<i tal:repeat="i0 %s"><u metal:use-macro='
                      '"template.macros[\'m\']"/></i></div>' % loop)
        return '<div><i tal:repeat="i0 %s">%s</i></div>' % (loop, body)

    def fresh_expected(self, case):
        n = FRESH_LEN[case["lit"]] + 1
        form = case["form"]
        if form in ("same_element", "macro"):
            one = "<b>%d</b>" % n
        elif form == "child_text":
            one = "<b><u>%d</u></b>" % n
        elif form == "global":
            one = "<b/><b>%d</b>" % n
        else:
            one = '<b n="%d"/>' % n
        if form == "macro":
            # in place once, then once per loop pass
            return "<div>" + one + "\n".join(
                "<i>%s</i>" % one for _ in range(case["loops"])) + "</div>"
        return "<div>" + "\n".join(
            "<i>%s</i>" % one for _ in range(case["loops"])) + "</div>"

    def comp_source(self, case):
        e = case["expr"]
        site = case["site"]
        if site == "content":
            return '<p tal:content="%s"/>' % e
        if site == "interp":
            return "<p>${%s}</p>" % e
        if site == "define":
            return '<p tal:define="r %s">${r}</p>' % e
        if site == "attr":
            return '<p tal:attributes="n str(%s)"/>' % e
        return '<p tal:condition="%s">yes</p>' % e

    def comp_env(self, case):
        env = {case["v"]: list(case["vals"]), case["w"]: list(case["wvals"]),
               "wv": [list(case["vals"])] * 2}
        return env

    def comp_expected(self, case):
        import html
        env = self.comp_env(case)
        try:
            val = eval(case["expr"], dict(env))   # noqa: S307 - own pool
        except Exception as e:  # noqa: BLE001
            return ("exc", type(e).__name__)
        site = case["site"]
        if site == "condition":
            return ("out", "<p>yes</p>" if val else "")
        text = html.escape(str(val), quote=False)
        if site == "attr":
            return ("out", '<p n="%s"/>' % html.escape(
                str(val)).replace("&#x27;", "'"))
        return ("out", "<p>%s</p>" % text)

    def oracle(self, case):
        from chameleon import PageTemplate
        from vlib.cham import run
        if case["what"] == "fresh":
            src = self.fresh_source(case)
            o = run(PageTemplate, src)
            if not o.ok:
                return Mismatch("reach:does not compile", {
                    "source": src, "error": repr(o.exc)})
            exp = self.fresh_expected(case)
            for k in range(case["renders"]):
                r = run(o.value.render)
                got = r.value if r.ok else repr(r.exc)
                if got != exp:
                    return Mismatch(
                        "reach:literal not built anew (%s)" % (
                            "first render" if k == 0 else "later render"),
                        {"source": src, "render": k, "got": got,
                         "expected": exp})
            return None
        src = self.comp_source(case)
        exp = self.comp_expected(case)
        o = run(PageTemplate, src)
        if not o.ok:
            return Mismatch("reach:comprehension does not compile", {
                "source": src, "error": repr(o.exc)})
        r = run(o.value.render, **self.comp_env(case))
        got = ("out", r.value) if r.ok else ("exc", type(r.exc).__name__)
        if got != exp:
            return Mismatch("reach:python scopes (%s vs %s)" % (
                got[0], exp[0]), {"source": src, "env": self.comp_env(case),
                                  "got": got, "expected": exp})
        return None


CHECK = Check(
    "C04", "exploration",
    rule=("C01 templates (depth <= 2 quick / 3 thorough) whose expressions "
          "are TALES pipes of 1..4 alternatives (each alternative succeeds, "
          "raises one of 8 caught or 7 not-caught classes, or fails "
          "naturally), with python:/string:/not:/exists:/structure: prefixes "
          "and nestings, at every statement and interpolation site; "
          "non-trivial = contains a failing alternative or a prefix; "
          "distinct by sha1 of the case; part reach: 15 expressions that "
          "build a list / dict / set (literals, pipes, calls) bound at 5 "
          "kinds of sites, changed and shown, reached 1..3 times per "
          "rendering (loop, macro) over 1..3 renderings; comprehensions / "
          "generator expressions whose loop variable is named like the "
          "template variable (or builtin) they run over, 9 shapes x 4 "
          "element forms x conditions at 5 sites, reference = Python eval "
          "with the template variables as globals"),
    parts=[Tales(), Reach()],
    assumptions=[
        "the call log is compared modulo the order of statements inside the "
        "guard group and inside the late group of one element activation",
        "structure: is applied to str() of a value only (str of None/bytes "
        "under structure is unspecified)",
    ],
    technique="Hypothesis expression-tree generation + reference evaluation "
              "on the tree + ordered call-log comparison",
)
