"""C09 - METAL: using a macro equals inlining it with its slots filled.

Metamorphic oracle.  From one abstract description the generator builds

  (A) a macro library (1..3 macros, each with 0..3 define-slot elements,
      repeated slot names allowed, TAL statements inside bodies and slot
      defaults) and a caller that uses the macros - filling a random subset
      of the slots plus names that no slot has - with TAL statements
      (define / condition / repeat) on the use-macro element, uses nested in
      fillers, and probes of variables after each use; the library is the
      same template, another template, or a whole template used as a macro;
      extend-macro chains of depth <= 2 with re-offered slots;
  (B) the hand-inlined METAL-free template: every use replaced by a copy of
      the macro's defining element in which each define-slot element is
      replaced by the caller's filler (or left as it is), wrapped in an
      element that carries the use element's TAL statements and omits its
      own tag.

render(A) must equal render(B) (text / exception class) and the call logs
must be equal: a macro renders exactly what its defining element would
render in the caller's variable context.  Probes after each use check that
macro locals do not reach the caller while global definitions do.  A
separate part checks the 'macroname' variable.
"""
from __future__ import annotations

import copy

from hypothesis import strategies as st

from vlib import exprs, tmodel, tstrat, values
from vlib.cham import run
from vlib.harness import Check, Mismatch, Part

BAN = ("switch", "case", "repeat_root")
PROBE_NAMES = ["l0", "l1", "l2", "g0", "g1", "i0"]


def probe():
    parts = [["lit", "{"]]
    for n in PROBE_NAMES:
        parts.append(["interp", ["pipe", [["var", n], ["const", "'-'"]]]])
        parts.append(["lit", ","])
    parts.append(["lit", "}"])
    return ["text", parts]


def lead_text(el, text="\n "):
    """Make the element's content start with a text node (so that repeat
    separators inside do not depend on where the element is written)."""
    kids = el["children"]
    if el.get("selfclose"):
        el["selfclose"] = False
    if not kids or kids[0][0] != "text":
        kids.insert(0, ["text", [["lit", text]]])


def strip_root(el):
    """Macro roots, slot elements and fillers carry no tal:repeat / replace
    themselves (separator whitespace and element identity depend on the
    file they are written in)."""
    for k in ("repeat", "replace", "on-error", "omit-tag"):
        el["stmts"].pop(k, None)
    el.pop("ns", None)
    if el["name"] in ("block", "omit-tag", "x"):
        el["name"] = "div"
    lead_text(el)


def descendants(el):
    for n in el["children"]:
        if n[0] == "elem":
            yield n[1]
            yield from descendants(n[1])


@st.composite
def scenarios(draw):
    # (text nodes also probe local names: a filler must not see what the
    # slot element it replaces defines, nor the macro's other locals)
    opts = {"ban": ("switch", "case", "on-error"), "max_elems": 6,
            "rec": True, "local_probes": True}
    ctx = tstrat.Ctx(draw, opts)
    n_macros = draw(st.integers(1, 3))
    macros = []
    slot_counter = 0
    for m in range(n_macros):
        ctx.n_elems = 0
        root = tstrat.element(ctx, 2)
        strip_root(root)
        root["stmts"].pop("content", None)   # the body is what matters
        while len(list(descendants(root))) < 2:
            root["children"].append(["elem", tstrat.element(ctx, 1)])
            root["children"].append(["text", [["lit", "\n"]]])
        cands = list(descendants(root))
        slots = []
        for el in cands:
            # never nest a slot inside another slot of the same macro
            if len(slots) >= 3 or draw(st.integers(0, 3)) == 0:
                continue
            inside = any(el in list(descendants(s)) for s in cands
                         if s.get("slot"))
            holds = any(d.get("slot") for d in descendants(el))
            if inside or holds:
                continue
            if slots and draw(st.integers(0, 4)) == 0:
                name = slots[-1]          # repeated slot name
            else:
                # (also names that are not Python identifiers)
                name = draw(st.sampled_from(["s%d", "s%d", "s-%d", "s.%d",
                                             "a:s%d"])) % slot_counter
                slot_counter += 1
            strip_root(el)
            el["slot"] = name
            slots.append(name)
            # a text node follows every slot element (what follows must not
            # depend on the text inside the default / the filler)
            for parent in [root] + cands:
                kids = parent["children"]
                for i, n in enumerate(kids):
                    if n[0] == "elem" and n[1] is el:
                        if i + 1 >= len(kids) or kids[i + 1][0] != "text":
                            # (... and shows whether a global definition made
                            # by the filler is in force for the rest of the
                            # macro)
                            kids.insert(i + 1, ["text", [
                                ["lit", " . "], ["interp", ["pipe", [
                                    ["var", "g0"], ["const", "'nog'"]]]]]])
        # the body of a later macro may itself use an earlier macro (no
        # fillers): what its caller offers must not reach that inner macro
        nested = None
        if m >= 1 and draw(st.integers(0, 2)) == 0:
            nested = draw(st.integers(0, m - 1))
        macros.append({"name": "m%d" % m, "root": root,
                       "slots": sorted(set(slots)), "nested": nested})
    kind = draw(st.sampled_from(["same", "other", "other", "whole"]))
    if kind == "whole":
        macros = macros[:1]
    # optional extension: macro "x0" extends macro 0, fills one of its slots
    # and re-offers that slot inside its filler
    extend = None
    if kind != "whole" and macros[0]["slots"] and draw(st.booleans()):
        s = draw(st.sampled_from(macros[0]["slots"]))
        ctx.n_elems = 0
        filler = tstrat.element(ctx, 1)
        strip_root(filler)
        inner = tstrat.element(ctx, 0)
        strip_root(inner)
        inner["slot"] = s
        filler["children"].append(["elem", inner])
        filler["children"].append(["text", [["lit", " after "]]])
        extend = {"name": "x0", "base": 0, "slot": s, "filler": filler}
    uses = []
    pending = None      # slot name offered in vain to the previous macro
    for u in range(draw(st.integers(1, 3))):
        target = draw(st.integers(0, len(macros) - 1))
        if extend is not None and draw(st.booleans()):
            target = 0
        if pending is not None and draw(st.integers(0, 3)) != 0:
            # now use the macro that does define that slot
            target = [k for k, m_ in enumerate(macros)
                      if pending in m_["slots"]][0]
        via_ext = extend is not None and target == 0 and \
            draw(st.integers(0, 3)) != 0
        slots = macros[target]["slots"]
        fills = {}
        for s in slots:
            if s == pending:
                continue
            if draw(st.booleans()) or (via_ext and s == extend["slot"] and
                                       draw(st.booleans())):
                ctx.n_elems = 0
                f = tstrat.element(ctx, 1)
                strip_root(f)
                if draw(st.integers(0, 3)) == 0:
                    # the filler defines a global variable
                    f["stmts"]["define"] = [["global", ["g0"], [
                        "const", "'F%d'" % u]]]
                fills[s] = f
        unknown = []
        pending = None
        for _ in range(draw(st.integers(0, 1)) or int(
                macros[target].get("nested") is not None and
                draw(st.booleans()))):
            ctx.n_elems = 0
            f = tstrat.element(ctx, 0)
            strip_root(f)
            # a name that no macro defines, or the slot name of ANOTHER
            # macro (which a later use must not see filled)
            foreign = sorted(set(x for k, m_ in enumerate(macros)
                                 if k != target for x in m_["slots"]) -
                             set(slots))
            inner = macros[target].get("nested")
            inner_slots = sorted(set(macros[inner]["slots"]) - set(slots)) \
                if inner is not None else []
            if inner_slots and draw(st.integers(0, 3)) != 0:
                # the slot of a macro that is used inside the target's body
                unknown.append([draw(st.sampled_from(inner_slots)), f])
            elif foreign and draw(st.booleans()):
                unknown.append([draw(st.sampled_from(foreign)), f])
                pending = unknown[-1][0]
            else:
                unknown.append(["zz%d" % u, f])
        wrap = {}
        w = draw(st.integers(0, 5))
        if w == 0:
            wrap["define"] = [["local", ["l0"], ["rec", "w%d.d" % u,
                                                 ["const", "'W'"]]]]
        elif w == 1:
            wrap["condition"] = ["rec", "w%d.c" % u, ["var", "s0"]]
        elif w == 2:
            wrap["repeat"] = [["i0"], ["rec", "w%d.r" % u, ["var", "q0"]]]
        elif w == 3:
            wrap["define"] = [["global", ["g1"], ["const", "'WG'"]]]
        uses.append({"macro": target, "ext": via_ext, "fills": fills,
                     "unknown": unknown, "wrap": wrap})
    return {"macros": macros, "kind": kind, "extend": extend, "uses": uses,
            "bindings": draw(tstrat.bindings_strategy())}


# --------------------------------------------------------------------------
# building the two templates

def clone(x):
    return copy.deepcopy(x)


def metal_attr(name, value):
    return ' metal:%s="%s"' % (name, value)


def mark_slots(el):
    """(A) write define-slot attributes."""
    for d in [el] + list(descendants(el)):
        if d.get("slot"):
            d.setdefault("extra_attrs", []).append(
                metal_attr("define-slot", d["slot"]))
    return el


def inline_macro(root, fills):
    """(B) a copy of the macro element with slot elements replaced by the
    fillers (a filler keeps its own statements, tag and attributes)."""
    root = clone(root)

    def walk(el):
        new = []
        for n in el["children"]:
            if n[0] == "elem":
                d = n[1]
                if d.get("slot") and d["slot"] in fills:
                    f = clone(fills[d["slot"]])
                    new.append(["elem", f])
                    continue
                walk(d)
            new.append(n)
        el["children"] = new
    walk(root)
    return root


def nested_ref(case, k):
    return ("macros['%s']" if case["kind"] == "same"
            else "lib.macros['%s']") % case["macros"][k]["name"]


def body_a(case, mi):
    """(A) the defining element of macro mi (without its define-macro)."""
    m = case["macros"][mi]
    a = mark_slots(clone(m["root"]))
    if m.get("nested") is not None and case["kind"] != "whole":
        a["children"] += [["text", [["lit", " nested:"]]], ["elem", {
            "name": "div", "attrs": [], "stmts": {}, "order": [0],
            "close_space": "", "children": [["text", [["lit", "ignored"]]]],
            "extra_attrs": [metal_attr("use-macro", nested_ref(
                case, m["nested"]))]}]]
    return a


def body_b(case, mi, fills):
    """(B) macro mi with the given fillers; a macro used in its body stands
    there with all its slots at their defaults."""
    m = case["macros"][mi]
    b = inline_macro(m["root"], fills)
    if m.get("nested") is not None and case["kind"] != "whole":
        b["children"] += [["text", [["lit", " nested:"]]],
                          ["elem", body_b(case, m["nested"], {})]]
    return b


def use_element(case, u, ref):
    """(A) the use-macro element with its fillers as children."""
    use = case["uses"][u]
    el = {"name": "div", "attrs": [], "stmts": dict(clone(use["wrap"])),
          "children": [["text", [["lit", "ignored "]]]], "order": [0],
          "close_space": "",
          "extra_attrs": [metal_attr("use-macro", ref)]}
    for s, f in sorted(use["fills"].items()):
        f = clone(f)
        f.setdefault("extra_attrs", []).append(metal_attr("fill-slot", s))
        el["children"].append(["elem", f])
        el["children"].append(["text", [["lit", " between "]]])
    for s, f in use["unknown"]:
        f = clone(f)
        f.setdefault("extra_attrs", []).append(metal_attr("fill-slot", s))
        el["children"].append(["elem", f])
    return el


def effective_macro(case, u):
    """The element a use stands for, with all fillers applied (B)."""
    use = case["uses"][u]
    m = case["macros"][use["macro"]]
    fills = dict(use["fills"])
    if use["ext"]:
        ext = case["extend"]
        # the extension's filler takes the base slot; inside it the slot is
        # offered again to the final caller
        inner_fills = {ext["slot"]: fills[ext["slot"]]} \
            if ext["slot"] in fills else {}
        filler = inline_macro(ext["filler"], inner_fills)
        fills = dict(fills)
        fills[ext["slot"]] = filler
    return body_b(case, use["macro"], fills)


def wrapper(case, u, inner_el):
    """(B) what replaces the use element."""
    use = case["uses"][u]
    return {"name": "div", "attrs": [], "order": [0], "close_space": "",
            "stmts": dict(clone(use["wrap"]), **{"omit-tag": None}),
            "children": [["elem", inner_el]]}


def build(case):
    """Returns (sourceA, libA or None, sourceB, libB or None)."""
    kind = case["kind"]
    macros = case["macros"]
    # --- library nodes
    libA, libB = [], []
    for mi, m in enumerate(macros):
        a = body_a(case, mi)
        if kind != "whole":
            a.setdefault("extra_attrs", []).append(
                metal_attr("define-macro", m["name"]))
        libA += [["elem", a], ["text", [["lit", "\n"]]]]
        libB += [["elem", body_b(case, mi, {})], ["text", [["lit", "\n"]]]]
    if case["extend"]:
        ext = case["extend"]
        base = macros[ext["base"]]
        ref = ("macros['%s']" if kind == "same" else "lib.macros['%s']") \
            % base["name"]
        xa = {"name": "div", "attrs": [], "stmts": {}, "order": [0],
              "close_space": "", "children": [],
              "extra_attrs": [metal_attr("define-macro", ext["name"]),
                              metal_attr("extend-macro", ref)]}
        f = mark_slots(clone(ext["filler"]))
        f.setdefault("extra_attrs", []).append(
            metal_attr("fill-slot", ext["slot"]))
        xa["children"] = [["text", [["lit", " "]]], ["elem", f]]
        libA += [["elem", xa], ["text", [["lit", "\n"]]]]
        # in place, the extension renders the base with its own filler and
        # the re-offered slot left at its default
        xb = inline_macro(base["root"], {ext["slot"]: clone(ext["filler"])})
        libB += [["elem", xb], ["text", [["lit", "\n"]]]]
    # --- caller nodes
    callA, callB = [probe()], [probe()]
    for u, use in enumerate(case["uses"]):
        m = macros[use["macro"]]
        name = case["extend"]["name"] if use["ext"] else m["name"]
        if kind == "same":
            ref = ("template.macros['%s']" if u % 2 else "macros['%s']") \
                % name
        elif kind == "other":
            ref = "lib.macros['%s']" % name
        else:
            ref = "lib"
        callA += [["elem", use_element(case, u, ref)], probe()]
        eff = effective_macro(case, u)
        if kind == "whole":
            # the whole library template is the macro: its trailing text too
            inner = {"name": "div", "attrs": [], "stmts": {"omit-tag": None},
                     "order": [0], "close_space": "",
                     "children": [["elem", eff], ["text", [["lit", "\n"]]]]}
            callB += [["elem", wrapper(case, u, inner)], probe()]
        else:
            callB += [["elem", wrapper(case, u, eff)], probe()]
    if kind == "same":
        return (tmodel.serialize(libA + callA).text(), None,
                tmodel.serialize(libB + callB).text(), None)
    return (tmodel.serialize(callA).text(), tmodel.serialize(libA).text(),
            tmodel.serialize(callB).text(), tmodel.serialize(libB).text())


def render(src, lib_src, bindings):
    from chameleon import PageTemplate
    log = []
    env = values.env(bindings)
    env["rec"], env["boom"] = exprs.make_callables(log)
    if lib_src is not None:
        o = run(PageTemplate, lib_src)
        if not o.ok:
            return ("lib-compile-exc", o.exc_name), log
        env["lib"] = o.value
    o = run(PageTemplate, src)
    if not o.ok:
        return ("compile-exc", o.exc_name), log
    o = run(o.value.render, **env)
    if not o.ok:
        return ("exc", o.exc_name), log
    return ("out", o.value), log


class Inline(Part):
    name = "inline"
    examples = {"quick": 900, "thorough": 30000}
    floors = {"filled_and_default": 0.1,
              "unused_filler_then_macro_with_that_slot": 0.03,
              "unused_filler_and_inner_macro_with_that_slot": 0.03}

    def strategy(self, tier):
        return scenarios()

    def _flags(self, case):
        fd = False
        for use in case["uses"]:
            slots = case["macros"][use["macro"]]["slots"]
            if use["fills"] and len(use["fills"]) < len(slots):
                fd = True
        rep = any(len(set(s for s in [d.get("slot") for d in descendants(
            m["root"])] if s)) < len([d for d in descendants(m["root"])
                                      if d.get("slot")])
            for m in case["macros"])
        stale = False
        for i, use in enumerate(case["uses"]):
            for name, _f in use["unknown"]:
                for later in case["uses"][i + 1:]:
                    if name in case["macros"][later["macro"]]["slots"] and \
                            name not in later["fills"]:
                        stale = True
        through = False
        for use in case["uses"]:
            k = case["macros"][use["macro"]].get("nested")
            while k is not None:
                if any(n in case["macros"][k]["slots"]
                       for n, _f in use["unknown"]):
                    through = True
                k = case["macros"][k].get("nested")
        return {"filled_and_default": fd, "repeated_slot": rep,
                "unused_filler_then_macro_with_that_slot": stale,
                "unused_filler_and_inner_macro_with_that_slot": through,
                "nested_use": any(m.get("nested") is not None
                                  for m in case["macros"]),
                "extend": any(u["ext"] for u in case["uses"]),
                "kind_" + case["kind"]: True,
                "unknown_fill": any(u["unknown"] for u in case["uses"])}

    def nontrivial(self, case):
        f = self._flags(case)
        return f["filled_and_default"] or f["repeated_slot"] or f["extend"]

    def labels(self, case):
        for k, v in self._flags(case).items():
            if v:
                yield k

    def sample(self, case):
        a, la, b, lb = build(case)
        return {"with_metal": a, "library": la, "inlined": b}

    def oracle(self, case):
        a, la, b, lb = build(case)
        ra, loga = render(a, la, case["bindings"])
        # the inlined template has no use for "lib", but the library's own
        # in-place rendering is part of (A) only when it is the same template
        rb, logb = render(b, None, case["bindings"])
        detail = {"with_metal": a, "library": la, "inlined": b,
                  "bindings": case["bindings"], "metal": ra, "inline": rb}
        if rb[0] == "compile-exc":
            # the METAL-free form must always compile (C01 domain)
            return Mismatch("inline:inlined form does not compile", detail)
        if ra != rb:
            return Mismatch("inline:%s vs %s" % (ra[0], rb[0]), detail)
        if loga != logb:
            return Mismatch("inline:call logs differ", dict(
                detail, log_metal=loga, log_inline=logb))
        return None


class MacroName(Part):
    name = "macroname"
    examples = {"quick": 150, "thorough": 3000}

    def strategy(self, tier):
        return st.fixed_dictionaries({
            "name": st.sampled_from(["m", "macro1", "a_b", "M"]),
            "via": st.sampled_from(["var", "macros", "template", "extend"]),
            "nested": st.booleans(),
        })

    def nontrivial(self, case):
        return case["nested"] or case["via"] == "extend"

    def oracle(self, case):
        from chameleon import PageTemplate
        n = case["name"]
        lib = PageTemplate(
            '<b metal:define-macro="%s">[${macroname}]'
            '<i metal:define-slot="s">d</i></b>' % n)
        if case["via"] == "var":
            ref, want = n, n
            env = {n: lib.macros[n]}
        elif case["via"] == "macros":
            ref, want = "lib.macros['%s']" % n, "lib.macros['%s']" % n
            env = {"lib": lib}
        elif case["via"] == "template":
            ref, want = "lib.macros/%s" % n, n
            env = {"lib": lib}
            return None    # path syntax is not available in python expressions
        else:
            ref, want = n, n
            env = {n: lib.macros[n]}
        attr = "extend-macro" if case["via"] == "extend" else "use-macro"
        src = '<div metal:%s="%s">x</div>' % (attr, ref)
        if case["nested"]:
            src = ('<div metal:use-macro="outer"><p metal:fill-slot="s">' +
                   src + "</p></div>(${macroname | 'undefined'})")
            env["outer"] = PageTemplate(
                '<u metal:define-macro="o">{${macroname}}'
                '<s metal:define-slot="s">x</s></u>').macros["o"]
        o = run(PageTemplate, src)
        if o.ok:
            o = run(o.value.render, **env)
        if not o.ok:
            return Mismatch("macroname:raises " + o.exc_name, {
                "source": src, "outcome": o.brief()})
        exp = "<b>[%s]<i>d</i></b>" % want
        if case["nested"]:
            exp = "<u>{outer}<p>" + exp + "</p></u>(undefined)"
        if o.value != exp:
            return Mismatch("macroname:differs", {"source": src,
                                                  "got": o.value,
                                                  "expected": exp})
        return None


class Corners(Part):
    """Hand-written shapes around macro definitions, with the expected text
    written down: macro names that are not identifiers, macros defined
    inside the body of the used macro (they are part of it: their slots are
    filled like any other slot of the body, in every repetition)."""
    name = "corners"
    examples = {"quick": 200, "thorough": 3000}

    def strategy(self, tier):
        return st.fixed_dictionaries({
            "kind": st.sampled_from(["name", "name", "nested", "nested_rep",
                                     "nested_same_slot", "nested_unfilled",
                                     "fill_after_extend",
                                     "filler_after_failure",
                                     "filler_after_missing_macro"]),
            "name": st.sampled_from(["m", "a-b", "a.b", "a_b", "x.y-z", "M1",
                                     "a:b", "é"]),
            "via": st.sampled_from(["macros", "getitem", "var"]),
            "n": st.integers(1, 3),
            "lib": st.sampled_from(["other", "same"]),
        })

    def nontrivial(self, case):
        return case["kind"] != "name" or not case["name"].isidentifier()

    def labels(self, case):
        yield case["kind"]

    def build(self, case):
        k, n = case["kind"], case["name"]
        if k in ("filler_after_failure", "filler_after_missing_macro"):
            # a use that fails (inside the macro, or before it is found) and
            # whose failure an enclosing tal:on-error handles: the fillers
            # it offered are gone with it - a later use of a macro that has
            # a slot of that name keeps its default
            lib = ('<div metal:define-macro="%s">${1 / 0}<i metal:define-slot'
                   '="x">dx</i></div><p metal:define-macro="leaf">(<i metal:'
                   'define-slot="x">leaf-x</i>)</p>' % n)
            pre = "macros" if case["lib"] == "same" else "lib.macros"
            target = "%s['%s']" % (pre, n) \
                if k == "filler_after_failure" else "nosuchmacro"
            caller = ('<div tal:on-error="string:err"><x metal:use-macro="%s">'
                      '<b metal:fill-slot="x">X</b></x></div>' % target
                      + ('<x metal:use-macro="%s[\'leaf\']"/>' % pre)
                      * case["n"])
            want = "<div>err</div>" + "<p>(<i>leaf-x</i>)</p>" * case["n"]
            return lib, caller, want
        if k == "fill_after_extend":
            # a filler written AFTER an extend-macro element (inside another
            # filler) belongs to the macro it is written for
            lib = ('<div metal:define-macro="%s"><i metal:define-slot="x">dx'
                   '</i><i metal:define-slot="y">dy</i></div>'
                   '<div metal:define-macro="second"><i metal:define-slot='
                   '"y">by</i></div>' % n)
            ref2 = "macros['second']" if case["lib"] == "same"                 else "lib.macros['second']"
            fill = ('<b metal:fill-slot="x"><p metal:extend-macro="%s"/></b>'
                    '<b metal:fill-slot="y">Y</b>' % ref2)
            want = "<div><b><div><i>by</i></div></b><b>Y</b></div>"
        elif k == "name":
            lib = '<b metal:define-macro="%s">M<i metal:define-slot="s">d</i></b>' % n
            want = "<b>M<u>F</u></b>"
            fill = '<u metal:fill-slot="s">F</u>'
        else:
            rep = ' tal:repeat="i range(%d)"' % case["n"] \
                if k == "nested_rep" else ""
            outer_slot = '<i metal:define-slot="x">A</i>' \
                if k == "nested_same_slot" else ""
            lib = ('<div metal:define-macro="%s">%s<tal:r%s>'
                   '<p metal:define-macro="inner">'
                   '[<i metal:define-slot="x">B</i>]</p></tal:r></div>' % (
                       n, outer_slot, rep))
            times = case["n"] if k == "nested_rep" else 1
            if k == "nested_unfilled":
                fill = '<u metal:fill-slot="other">F</u>'
                want = "<div>" + "<p>[<i>B</i>]</p>" * times + "</div>"
            else:
                fill = '<u metal:fill-slot="x">F</u>'
                want = "<div>" + ("<u>F</u>" if outer_slot else "") + \
                    "<p>[<u>F</u>]</p>" * times + "</div>"
        if case["lib"] == "same":
            ref = "macros['%s']" % n
        elif case["via"] == "getitem":
            ref = "lib['%s']" % n
        elif case["via"] == "var":
            ref = "the_macro"
        else:
            ref = "lib.macros['%s']" % n
        caller = '<x metal:use-macro="%s">%s</x>' % (ref, fill)
        return lib, caller, want

    def sample(self, case):
        lib, caller, want = self.build(case)
        return {"library": lib, "caller": caller, "expected": want}

    def oracle(self, case):
        from chameleon import PageTemplate
        lib, caller, want = self.build(case)
        detail = {"library": lib, "caller": caller, "expected": want}
        if case["lib"] == "same":
            # library and caller in one template; the library part is not
            # rendered in place
            src = ('<tal:b condition="False">%s</tal:b>%s' % (lib, caller))
            o = run(PageTemplate, src)
            if o.ok:
                o = run(o.value.render)
        else:
            o = run(PageTemplate, lib)
            if o.ok:
                t = o.value
                env = {"lib": t}
                if case["via"] == "var":
                    o = run(lambda: t.macros[case["name"]])
                    if o.ok:
                        env["the_macro"] = o.value
                if o.ok:
                    o = run(PageTemplate, caller)
                if o.ok:
                    o = run(o.value.render, **env)
        nested_twice = case["kind"] in ("nested_same_slot",) or (
            case["kind"] == "nested_rep" and case["n"] >= 2)
        if not o.ok:
            return Mismatch("corners:%s raises %s" % (
                case["kind"], o.exc_name), dict(detail, outcome=o.brief()))
        if o.value != want:
            if nested_twice and o.value == self.k16(case):
                return Mismatch("corners:K16", dict(detail, got=o.value))
            return Mismatch("corners:%s differs" % case["kind"],
                            dict(detail, got=o.value))
        return None

    def k16(self, case):
        """Deviation: the filler is handed out once per use - to the first
        slot region that asks for it."""
        if case["kind"] == "nested_same_slot":
            return "<div><u>F</u><p>[<i>B</i>]</p></div>"
        return "<div><p>[<u>F</u>]</p>" + "<p>[<i>B</i>]</p>" * (
            case["n"] - 1) + "</div>"

    def known(self, case, mismatch):
        return "K16" if mismatch.bucket == "corners:K16" else None


# -- chains of extensions and uses in macro bodies ---------------------------

CHAIN_SLOTS = ["s", "q"]
# (slot names need not be identifiers; names that differ only in such
# characters are different slots)
CHAIN_POOLS = [["s", "q"], ["s", "q"], ["a-b", "a_b"], ["x.y", "x-y"]]


def pool_of(case):
    return case.get("pool") or CHAIN_SLOTS


@st.composite
def chain_cases(draw):
    """A library of 2..6 literal macros m0..mK over ONE small pool of slot
    names: plain macros (define some slots, may use an earlier macro in
    their body, offering it fillers of their own) and extensions of earlier
    macros (fill some slots, a filler may offer its slot again); then 1..3
    uses by a caller, rendered 1..2 times with the same library object."""
    macros = []
    CHAIN_SLOTS = draw(st.sampled_from(CHAIN_POOLS))
    for k in range(draw(st.integers(2, 6))):
        if k and draw(st.integers(0, 2)) != 0:
            fills = {}
            for n in CHAIN_SLOTS:
                c = draw(st.integers(0, 3))
                if c:
                    fills[n] = "reoffer" if c == 3 else "plain"
            macros.append({"kind": "ext", "base": draw(st.integers(0, k - 1)),
                           "fills": fills})
        else:
            slots = [n for n in CHAIN_SLOTS if draw(st.integers(0, 2))]
            use = None
            if k and draw(st.booleans()):
                use = {"macro": draw(st.integers(0, k - 1)),
                       "fills": [n for n in CHAIN_SLOTS
                                 if draw(st.integers(0, 3)) == 0]}
            macros.append({"kind": "plain", "slots": slots, "use": use})
    uses = []
    for _ in range(draw(st.integers(1, 3))):
        # (mostly the macros defined last: they sit on top of the others)
        k = draw(st.integers(0, len(macros) - 1))
        k = max(k, draw(st.integers(0, len(macros) - 1)))
        uses.append({"macro": k,
                     "fills": [n for n in CHAIN_SLOTS + ["zz"]
                               if draw(st.booleans())]})
    return {"macros": macros, "uses": uses, "pool": CHAIN_SLOTS,
            "rounds": draw(st.integers(1, 2))}


def chain_library(case):
    out = ["<div>"]
    for k, m in enumerate(case["macros"]):
        name = "m%d" % k
        if m["kind"] == "plain":
            body = "[%s" % name
            for n in m["slots"]:
                body += '<b metal:define-slot="%s">%s-%s</b>' % (n, name, n)
            if m["use"] is not None:
                body += '<i metal:use-macro="macros[\'m%d\']">' % \
                    m["use"]["macro"]
                for n in m["use"]["fills"]:
                    body += '<u metal:fill-slot="%s">%s-gives-%s</u>' % (
                        n, name, n)
                body += "</i>"
            out.append('<p metal:define-macro="%s">%s]</p>' % (name, body))
        else:
            body = ""
            for n, how in sorted(m["fills"].items()):
                if how == "reoffer":
                    body += ('<b metal:fill-slot="%s">%s-%s(<i metal:'
                             'define-slot="%s">%s-re-%s</i>)</b>' % (
                                 n, name, n, n, name, n))
                else:
                    body += '<b metal:fill-slot="%s">%s-%s</b>' % (
                        n, name, n)
            out.append('<p metal:define-macro="%s" metal:extend-macro='
                       '"macros[\'m%d\']">%s</p>' % (name, m["base"], body))
    out.append("</div>")
    return "".join(out)


def chain_caller(case):
    out = ["<div>"]
    for u, use in enumerate(case["uses"]):
        out.append('<x metal:use-macro="lib.macros[\'m%d\']">' % use["macro"])
        for n in use["fills"]:
            out.append('<u metal:fill-slot="%s">c%d-%s</u>' % (n, u, n))
        out.append("</x>|")
    out.append("</div>")
    return "".join(out)


def chain_expand(case, k, outer):
    """Text of macro k when the fillers ``outer`` (slot name -> text) are
    offered to it: inlining by the book."""
    m = case["macros"][k]
    name = "m%d" % k
    if m["kind"] == "plain":
        body = "[%s" % name
        for n in m["slots"]:
            body += outer.get(n, "<b>%s-%s</b>" % (name, n))
        if m["use"] is not None:
            # only what the macro itself offers reaches a macro in its body
            body += chain_expand(case, m["use"]["macro"], {
                n: "<u>%s-gives-%s</u>" % (name, n)
                for n in m["use"]["fills"]})
        return "<p>%s]</p>" % body
    passed = {}
    for n in pool_of(case):
        how = m["fills"].get(n)
        if how == "reoffer":
            passed[n] = "<b>%s-%s(%s)</b>" % (name, n, outer.get(
                n, "<i>%s-re-%s</i>" % (name, n)))
        elif n in outer:
            passed[n] = outer[n]
        elif how == "plain":
            passed[n] = "<b>%s-%s</b>" % (name, n)
    return chain_expand(case, m["base"], passed)


class Chains(Part):
    """Extension chains of any length and uses inside macro bodies, all over
    one pool of slot names: what the caller offers reaches exactly the slots
    of the macro it uses (through every extension level), never a macro that
    is merely used in a body; a rendering does not depend on an earlier
    one."""
    name = "chains"
    examples = {"quick": 3000, "thorough": 60000}
    floors = {"chain3": 0.1, "body_use": 0.3}

    def strategy(self, tier):
        return chain_cases()

    def _depth(self, case, k):
        m = case["macros"][k]
        return 1 + self._depth(case, m["base"]) if m["kind"] == "ext" else 1

    def labels(self, case):
        if any(self._depth(case, u["macro"]) >= 3 for u in case["uses"]):
            yield "chain3"
        if any(m["kind"] == "plain" and m["use"] for m in case["macros"]):
            yield "body_use"
        if any(m["kind"] == "plain" and m["use"] and case["macros"][
                m["use"]["macro"]]["kind"] == "ext" for m in case["macros"]):
            yield "extension_in_body"
        if case["rounds"] > 1:
            yield "second_round"

    def nontrivial(self, case):
        return any(self._depth(case, u["macro"]) >= 2 or (
            case["macros"][u["macro"]].get("use")) for u in case["uses"])

    def sample(self, case):
        return {"library": chain_library(case), "caller": chain_caller(case)}

    def oracle(self, case):
        from chameleon import PageTemplate
        lib_src, src = chain_library(case), chain_caller(case)
        exp = "<div>" + "".join(
            chain_expand(case, use["macro"], {
                n: "<u>c%d-%s</u>" % (u, n) for n in use["fills"]
                if n in pool_of(case)}) + "|"
            for u, use in enumerate(case["uses"])) + "</div>"
        o = run(PageTemplate, lib_src)
        if not o.ok:
            return Mismatch("chains:library does not compile", {
                "library": lib_src, "outcome": o.brief()})
        lib = o.value
        for r in range(case["rounds"]):
            o = run(PageTemplate, src)
            if o.ok:
                o = run(o.value.render, lib=lib)
            got = o.value if o.ok else "exc " + o.exc_name
            if got != exp:
                return Mismatch("chains:differs from the inlined text (%s)"
                                % ("first rendering" if r == 0 else
                                   "later rendering"),
                                {"library": lib_src, "caller": src,
                                 "round": r, "got": got, "expected": exp})
        return None


CHECK = Check(
    "C09", "exploration",
    rule=("(macro library, caller) pairs: 1..3 macros with 0..3 slots "
          "(repeated names allowed), 1..3 uses each filling a random subset "
          "of slots plus unknown names, TAL define/condition/repeat/global "
          "on the use element, macros of the same template / another "
          "template / a whole template, optional extend-macro with a "
          "re-offered slot, TAL statements inside bodies, defaults and "
          "fillers, probes of macro locals/globals after each use; "
          "non-trivial = a use fills some but not all slots, or a repeated "
          "slot name, or an extension; distinct by sha1; part chains: literal "
          "libraries of 2..6 macros over one pool of two slot names - plain "
          "macros that may use an earlier macro in their body, extensions of "
          "any earlier macro (chains of any length, fillers that offer "
          "their slot again) - 1..3 uses, 1..2 renderings with one library "
          "object, reference = inlining by a 30-line function"),
    parts=[Inline(), MacroName(), Corners(), Chains()],
    assumptions=[
        "macro roots, slot elements and filler roots carry no tal:repeat / "
        "replace / omit-tag / on-error themselves and start with text "
        "(repeat separators and omitted tags depend on the source file an "
        "element is written in)",
        "tal:switch / tal:case and i18n are not used across macro boundaries "
        "(lexical in the implementation, unspecified by the property)",
        "slot names are unique across different macros of one library",
    ],
    technique="metamorphic: use-macro vs hand-inlined METAL-free template "
              "built from one abstract description (both rendered by the "
              "code under test, the inlined form lies in C01's domain)",
)
