"""C19 - strict mode changes only when an invalid expression is reported.

Parts
  valid     C04 templates (TALES-rich, all expressions syntactically valid)
            compiled with strict=True and strict=False: identical rendered
            text, call log and exception class for the same bindings
            (differential; no model needed).
  planted   C01 templates in which 1..3 expression sites are replaced by
            syntactically invalid text (each with a unique marker), at sites
            that the bindings do or do not reach (false conditions, empty
            repeats, unmatched cases, replaced content, fallback of an
            on-error that never fires, later pipe alternatives).
            strict=True : constructing the template raises ExpressionError
                          whose token is one of the planted texts and whose
                          offset points at that text in the source.
            strict=False: construction succeeds; render raises an
                          ExpressionError carrying the same token text and
                          offset iff the reference interpreter reaches a
                          planted site (and then it is the FIRST one reached);
                          otherwise the output equals the model's.
"""
from __future__ import annotations

import copy
import os

from hypothesis import strategies as st

from vlib import exprs, tmodel, tstrat, values
from vlib.cham import run
from vlib.harness import Check, Mismatch, Part
from checks.c01 import elems
from checks.c04 import canonical

INVALID_SHAPES = ["%d +", "(%d", "%d %d", "x%d ==", "%d )", "lambda %d:",
                  "%d if", "not", "%d..", "[%d", "a%d b%d"]


def make(source, strict, via="option"):
    """A template compiled in the given mode, chosen by the constructor
    option or by the attribute of a template class."""
    from chameleon import PageTemplate
    if via == "class":
        cls = type("Strict" if strict else "Lenient", (PageTemplate,),
                   {"strict": strict})
        return cls(source)
    return PageTemplate(source, strict=strict)


def env_for(case, log):
    env = values.env(case["bindings"])
    rec, boom = exprs.make_callables(log)
    env["rec"], env["boom"] = rec, boom
    return env


class Valid(Part):
    name = "valid"
    examples = {"quick": 800, "thorough": 25000}

    def strategy(self, tier):
        return tstrat.templates(depth=2, tales=True, max_elems=8, onerror=1)

    def nontrivial(self, case):
        return any(len(e["stmts"]) >= 2 for e in elems(case["nodes"]))

    def sample(self, case):
        return {"source": tmodel.serialize(case["nodes"]).text()}

    def one(self, case, src, strict):
        from chameleon import PageTemplate
        log = []
        o = run(make, src, strict, "class" if len(src) % 3 == 0 else "option")
        if not o.ok:
            return ("compile-exc", o.exc_name), log
        o = run(o.value.render, **env_for(case, log))
        if not o.ok:
            return ("exc", o.exc_name), log
        return ("out", o.value), log

    def oracle(self, case):
        src = tmodel.serialize(case["nodes"]).text()
        a, la = self.one(case, src, True)
        b, lb = self.one(case, src, False)
        if a == b and la == lb:
            return None
        return Mismatch("valid:strict and non-strict differ", {
            "source": src, "bindings": case["bindings"], "strict": a,
            "non_strict": b, "log_strict": la, "log_non_strict": lb})


def expr_slots(nodes):
    """All places holding an expression: list of (container, key)."""
    slots = []

    def parts(ps):
        for p in ps:
            if p[0] == "interp":
                slots.append((p, 1))

    def walk(ns):
        for n in ns:
            if n[0] == "text":
                parts(n[1])
            elif n[0] == "elem":
                el = n[1]
                st_ = el["stmts"]
                # (with tal:omit-tag="" / tal: elements the start tag, and
                # with it every attribute expression, is never compiled)
                dead_tag = el.get("ns") or ("omit-tag" in st_ and
                                            st_["omit-tag"] is None)
                if not dead_tag:
                    for a in el["attrs"]:
                        parts(a[3])
                for d in st_.get("define", ()):
                    slots.append((d, 2))
                for k in ("condition", "switch", "case"):
                    if k in st_ and st_[k][0] not in ("default",):
                        slots.append((st_, k))
                if "repeat" in st_:
                    slots.append((st_["repeat"], 1))
                for k in ("content", "replace", "on-error"):
                    if k in st_:
                        slots.append((st_[k], 1))
                if st_.get("omit-tag") is not None:
                    slots.append((st_, "omit-tag"))
                if not dead_tag:
                    for a in st_.get("attributes", ()):
                        slots.append((a, 1))
                walk(el["children"])
    walk(nodes)
    return slots


def find_invalid(e):
    """The first ["invalid", ...] node inside an expression tree."""
    if isinstance(e, list):
        if e and e[0] == "invalid":
            return e
        for x in e:
            r = find_invalid(x)
            if r is not None:
                return r
    return None


@st.composite
def planted(draw):
    case = draw(tstrat.templates(depth=2, max_elems=8, onerror=2, rec=True,
                                 onerror_simple=True))
    nodes = copy.deepcopy(case["nodes"])
    slots = expr_slots(nodes)
    if not slots:
        return {"nodes": nodes, "bindings": case["bindings"], "planted": []}
    k = draw(st.integers(1, min(3, len(slots))))
    idxs = draw(st.lists(st.integers(0, len(slots) - 1), min_size=k,
                         max_size=k, unique=True))
    texts = []
    for j, i in enumerate(idxs):
        cont, key = slots[i]
        shape = draw(st.sampled_from(INVALID_SHAPES))
        n = 70 + j
        text = shape % ((n,) * shape.count("%d")) if "%d" in shape \
            else shape + " %d +" % n
        if texts and draw(st.integers(0, 2)) == 0:
            # the very same invalid text at a second site
            text = texts[0]["text"]
        old = cont[key]
        as_alt = draw(st.integers(0, 5)) == 0 and old[0] not in (
            "default", "nothing")
        if as_alt:
            # a later pipe alternative behind something that succeeds
            cont[key] = ["pipe", [old, ["invalid", text, j]]]
        else:
            cont[key] = ["invalid", text, j]
            wrap = draw(st.sampled_from([None, None, None, "exists", "not",
                                         "python"]))
            if wrap and key != "omit-tag" and old[0] not in ("string",):
                # operand of an expression type that takes an expression
                cont[key] = ["prefix", wrap, ["invalid", text, j]]
        texts.append({"text": text, "alt": as_alt})
    # constant conditions (the idiom for commenting markup out): what they
    # guard is still part of the template
    for el in elems(nodes):
        st_ = el["stmts"]
        if "condition" not in st_ and "case" not in st_ and \
                draw(st.integers(0, 5)) == 0:
            st_["condition"] = ["const", draw(st.sampled_from(
                ["False", "None", "0", "''", "False", "0.0", "[]", "True",
                 "1"]))]
    return {"nodes": nodes, "bindings": case["bindings"], "planted": texts,
            # how the mode is chosen: constructor option or class attribute
            "via": draw(st.sampled_from(["option", "option", "class"])),
            "eol": draw(st.sampled_from(["\n", "\n", "\r\n", "\r"]))}


class Planted(Part):
    name = "planted"
    examples = {"quick": 1200, "thorough": 40000}
    floors = {"unreached": 0.15, "reached": 0.15}

    def strategy(self, tier):
        return planted()

    def model(self, case, whole_expr=False, leak=False):
        env = values.env(case["bindings"])
        nodes = case["nodes"]
        if whole_expr:
            # deviation model of K7: an invalid alternative invalidates the
            # whole expression it is part of
            nodes = copy.deepcopy(nodes)
            for cont, key in expr_slots(nodes):
                e = cont[key]
                if e[0] == "pipe" and exprs.has(e, "invalid"):
                    inv = [a for a in e[1] if a[0] == "invalid"][0]
                    cont[key] = inv
            # ... and a text node / attribute value with several ${} is one
            # unit as well: it fails before any of its parts is evaluated

            def unit(parts):
                bad = [p for p in parts if p[0] == "interp" and
                       exprs.has(p[1], "invalid")]
                if bad:
                    first = [p for p in parts if p[0] == "interp"][0]
                    first[1] = find_invalid(bad[0][1])

            def walk(ns):
                for n in ns:
                    if n[0] == "text":
                        unit(n[1])
                    elif n[0] == "elem":
                        for a in n[1]["attrs"]:
                            unit(a[3])
                        walk(n[1]["children"])
            walk(nodes)
        r = tmodel.run_model(nodes, env, leak=leak)
        if r[0] == "exc":
            if isinstance(r[1], exprs.ExpressionError):
                self.reached_uid = r[1].args[1] if len(r[1].args) > 1 \
                    else None
                return ("invalid", r[1].args[0]), r[2]
            return ("exc", type(r[1]).__name__), r[2]
        return ("out", r[1]), r[2]

    def _reach(self, case):
        if not case["planted"]:
            return None
        m, _ = self.model(case)
        return m[0] == "invalid"

    def nontrivial(self, case):
        return bool(case["planted"]) and self._reach(case) is False

    def labels(self, case):
        r = self._reach(case)
        if r is True:
            yield "reached"
        elif r is False:
            yield "unreached"
        if any(p["alt"] for p in case["planted"]):
            yield "later_alternative"

    def sample(self, case):
        return {"source": tmodel.serialize(case["nodes"]).text(),
                "planted": case["planted"]}

    def oracle(self, case):
        from chameleon import PageTemplate
        from chameleon.exc import ExpressionError
        if not case["planted"]:
            return None
        src = tmodel.serialize(case["nodes"]).text()
        # the template is written with this line-ending style; positions
        # are checked against the text with plain line feeds (a CR LF pair
        # is one line break: line and column numbers are the same)
        given = src.replace("\n", case.get("eol", "\n"))
        texts = [p["text"] for p in case["planted"]]
        detail = {"source": src, "bindings": case["bindings"],
                  "planted": case["planted"]}
        # --- strict
        via = case.get("via", "option")
        o = run(make, given, True, via)
        if o.ok:
            return Mismatch("planted:strict accepted an invalid expression",
                            detail)
        if not isinstance(o.exc, ExpressionError):
            return Mismatch("planted:strict raises " + o.exc_name,
                            dict(detail, outcome=o.brief()))
        tok = str(o.exc.token)
        off = o.exc.offset
        why = self.check_token(src, tok, off, texts)
        if why:
            return Mismatch("planted:strict " + why, dict(
                detail, token=tok, offset=off,
                found=src[off:off + len(tok)]))
        why = self.check_location(src, tok, off, o.exc)
        if why:
            return Mismatch("planted:strict " + why, dict(
                detail, token=tok, offset=off, eol=case.get("eol")))
        # --- strict, as a file template used more than once: every use
        # reports the error (the object does not remember a failed attempt
        # as a compiled state)
        if len(src) % 4 == 0:
            why = self.file_twice(given, tok)
            if why:
                return Mismatch("planted:strict file template " + why,
                                detail)
        # --- non-strict
        o = run(make, given, False, via)
        if not o.ok:
            return Mismatch("planted:non-strict construction raises " +
                            o.exc_name, dict(detail, outcome=o.brief()))
        log = []
        r = run(o.value.render, **env_for(case, log))
        exp, mlog = self.model(case)
        detail.update(expected=exp)
        if r.ok:
            got = ("out", r.value)
        elif isinstance(r.exc, ExpressionError):
            t = str(r.exc.token)
            off = r.exc.offset
            why = self.check_token(src, t, off, texts)
            if why:
                return Mismatch("planted:non-strict " + why, dict(
                    detail, token=t, offset=off))
            why = self.check_location(src, t, off, r.exc)
            if why:
                return Mismatch("planted:non-strict " + why, dict(
                    detail, token=t, offset=off, eol=case.get("eol")))
            got = ("invalid", self.planted_for(src, t, off, texts))
        else:
            got = ("exc", r.exc_name)
        detail.update(got=got)
        if got == exp:
            if got[0] == "invalid" and texts.count(got[1]) > 1 and \
                    not any(p["alt"] for p in case["planted"]):
                # the same invalid text stands at several sites: the
                # reported position must be the one that was reached
                true = self.offset_of(case, getattr(self, "reached_uid",
                                                    None))
                roff = r.exc.offset
                if true is not None and roff != true and not \
                        self.entity_before(src, true):
                    return Mismatch("planted:non-strict error points at "
                                    "another occurrence", dict(
                                        detail, offset=roff, reached=true))
            return None
        dexp, dlog = self.model(case, whole_expr=True)
        if got == dexp and dexp != exp:
            # the deferred unit is larger than the invalid expression (whole
            # TALES expression / whole text node or attribute value)
            return Mismatch("planted:K7", detail)
        lexp, _ = self.model(case, leak=True)
        if got == lexp and lexp != exp:
            # the deferred error was raised inside an element with
            # tal:on-error, which handled it - and the variables that
            # element had defined are still there afterwards (C13's K5)
            return Mismatch("planted:K5", detail)
        return Mismatch("planted:non-strict %s vs %s" % (got[0], exp[0]),
                        detail)

    @staticmethod
    def file_twice(source, token):
        import os
        import tempfile
        from chameleon import PageTemplateFile
        from chameleon.exc import ExpressionError
        fd, path = tempfile.mkstemp(prefix="c19-", suffix=".pt")
        try:
            with os.fdopen(fd, "w", encoding="utf-8", newline="") as f:
                f.write(source)
            t = PageTemplateFile(path, strict=True)
            first = None
            for k in range(3):
                r = run(t.render)
                if r.ok:
                    return "use %d rendered" % (k + 1)
                if not isinstance(r.exc, ExpressionError):
                    return "use %d raises %s" % (k + 1, r.exc_name)
                now = (str(r.exc.token), r.exc.offset)
                if first is None:
                    first = now
                elif now != first:
                    return "use %d reports another error" % (k + 1)
            # ... and writing the same text into a string template again
            from chameleon import PageTemplate
            st_ = PageTemplate("<p>valid</p>", strict=True)
            for k in range(2):
                r = run(st_.write, source)
                if r.ok or not isinstance(r.exc, ExpressionError):
                    return "write %d accepted the text" % (k + 1)
        finally:
            try:
                os.unlink(path)
            except OSError:
                pass
        return None

    @staticmethod
    def entity_before(src, true):
        start = max(src.rfind('="', 0, true), src.rfind("='", 0, true),
                    src.rfind("${", 0, true))
        return start >= 0 and "&" in src[start:true]

    def offset_of(self, case, uid):
        """Source offset of the planted site ``uid`` (found by re-serializing
        the template with that one site's text changed in one character)."""
        if uid is None:
            return None
        nodes = copy.deepcopy(case["nodes"])
        mark = []

        def walk(x):
            if isinstance(x, list):
                if len(x) == 3 and x[0] == "invalid" and x[2] == uid:
                    t = x[1]
                    x[1] = "\x01" + t[1:] if t else t
                    mark.append(x[1])
                for y in x:
                    walk(y)
            elif isinstance(x, dict):
                for y in x.values():
                    walk(y)
        walk(nodes)
        if not mark:
            return None
        text = tmodel.serialize(nodes).text()
        i = text.find(mark[0].strip() if not mark[0].startswith("\x01")
                      else mark[0])
        return i if i >= 0 else None

    @staticmethod
    def planted_for(src, tok, off, texts):
        """The planted text a reported token stands for: the token itself,
        or - when the token is the truncated head of a ${...} candidate -
        the planted text that follows inside the same interpolation."""
        if tok.strip() in texts:
            return tok.strip()
        best = None
        for t in texts:
            end = src.find(t, off)
            inside = src.rfind("${", 0, off + 1) > src.rfind("}", 0, off)
            if end >= 0 and inside and "${" not in src[off:end] and \
                    src[off + len(tok):off + len(tok) + 1] == "}":
                # (only the brace-truncated head of a ${...} candidate:
                # the planted text that follows next)
                if best is None or end < best[0]:
                    best = (end, t)
        return best[1] if best else None

    @staticmethod
    def check_location(src, tok, off, exc):
        """(line, column) reported with the error = where the token stands
        (only asserted when the offset itself is exact)."""
        if src[off:off + len(tok)] != tok:
            return None
        before = src[:off]
        want = (before.count("\n") + 1, off - before.rfind("\n") - 1)
        got = tuple(exc.location)
        if got != want:
            return "location differs from where the token stands"
        return None

    @classmethod
    def check_token(cls, src, tok, off, texts):
        if cls.planted_for(src, tok, off, texts) is None:
            return "token is not a planted text"
        if src[off:off + len(tok)] == tok:
            return None
        # entities written before the token in the same attribute value
        # shift reported positions (checked, and recorded, under C11)
        # (the same text may stand at several sites: any of them)
        true = src.find(tok.strip())
        while true >= 0:
            start = max(src.rfind('="', 0, true), src.rfind("='", 0, true))
            if start >= 0 and "&" in src[start:true]:
                return None
            start = src.rfind("${", 0, true)
            if start >= 0 and "&" in src[start:true]:
                return None
            true = src.find(tok.strip(), true + 1)
        return "offset does not point at token"

    def known(self, case, mismatch):
        return {"planted:K7": "K7", "planted:K5": "K5"}.get(mismatch.bucket)


class CodeBlocks(Part):
    """<?python ?> blocks with invalid Python are invalid expressions too:
    strict compilation fails, non-strict compilation succeeds and the error
    is raised iff the block is reached."""
    name = "codeblocks"
    examples = {"quick": 200, "thorough": 4000}

    BAD = ["x = = 1", "def f(:\n  pass", "1 +", "for x in", "y = (1,"]

    def strategy(self, tier):
        return st.fixed_dictionaries({
            "bad": st.sampled_from(self.BAD),
            "guard": st.sampled_from(["none", "true", "false", "empty_repeat",
                                      "var_true", "var_false",
                                      "unused_macro"]),
            "lead": st.sampled_from(["", "\n", "<p>a ${1 + 1}</p>\n  ",
                                     "é日本 "]),
            "second": st.booleans(),
            "via": st.sampled_from(["option", "class"]),
        })

    def build(self, case):
        block = "<?python %s ?>" % case["bad"]
        g = case["guard"]
        wrap = {"none": "%s", "true": '<i tal:condition="True">%s</i>',
                "false": '<i tal:condition="False">%s</i>',
                "empty_repeat": '<i tal:repeat="x ()">%s</i>',
                "var_true": '<i tal:condition="flag">%s</i>',
                "var_false": '<i tal:condition="not flag">%s</i>',
                "unused_macro": '<i metal:define-macro="m" '
                                'tal:condition="False">%s</i>'}[g]
        src = "<r>" + case["lead"] + wrap % block + "<b>z</b>"
        if case["second"]:
            src += '<u tal:condition="False"><?python also bad = ?></u>'
        src += "</r>"
        reached = g in ("none", "true", "var_true")
        return src, src.index(block) + len("<?python"), reached

    def nontrivial(self, case):
        return not self.build(case)[2]

    def labels(self, case):
        yield "reached" if self.build(case)[2] else "unreached"

    def sample(self, case):
        return {"source": self.build(case)[0]}

    def oracle(self, case):
        from chameleon.exc import ExpressionError
        src, off, reached = self.build(case)
        detail = {"source": src, "reached": reached}
        o = run(make, src, True, case["via"])
        if o.ok or not isinstance(o.exc, ExpressionError):
            return Mismatch("codeblocks:strict compilation accepted an "
                            "invalid block", dict(detail, outcome=o.brief()))
        o = run(make, src, False, case["via"])
        if not o.ok:
            return Mismatch("codeblocks:non-strict construction raises " +
                            o.exc_name, dict(detail, outcome=o.brief()))
        r = run(o.value.render, flag=True)
        if reached:
            if r.ok or not isinstance(r.exc, ExpressionError):
                return Mismatch("codeblocks:reached block did not raise",
                                dict(detail, outcome=r.brief()))
            if r.exc.offset != off or case["bad"].split("\n")[0] not in \
                    str(r.exc.token):
                return Mismatch("codeblocks:error does not point at the "
                                "block", dict(detail, offset=r.exc.offset,
                                              expected_offset=off))
        elif not r.ok:
            return Mismatch("codeblocks:unreached block raises " +
                            r.exc_name, dict(detail, outcome=r.brief()))
        elif not r.value.endswith("<b>z</b></r>"):
            return Mismatch("codeblocks:output", dict(detail, got=r.value))
        return None


# -- invalid expressions without any text --------------------------------------

EMPTY_SITES = [
    '<p tal:content="">x</p>', '<p tal:content=" ">x</p>',
    '<p tal:condition=" ">x</p>', "<p>${ }</p>", "<p>a ${  } b</p>",
    '<p tal:content="1 | ">x</p>', '<p tal:content="not: ">x</p>',
    '<p tal:define="v ">x</p>', '<p tal:define="a 1; v ">x</p>',
    '<p tal:content="structure: ">x</p>', '<p tal:repeat="x ">x</p>',
    '<p title="${ }">x</p>', '<p tal:replace="">x</p>',
    '<p tal:content="python: ">x</p>', '<p tal:content="exists: ">x</p>',
    '<p tal:switch="">x</p>',
]


class Empty(Part):
    """Expressions that are invalid because there is nothing there (an empty
    statement argument, ${ }, an empty pipe alternative, a prefix without an
    operand): the error has no text to show, but both modes treat it like
    every other invalid expression - strict construction fails; non-strict
    construction succeeds and rendering raises that very ExpressionError
    (message, offset, line and column) iff the site is reached."""
    name = "empty"
    examples = {"quick": 250, "thorough": 4000}
    floors = {"unreached": 0.2, "reached": 0.2}

    def strategy(self, tier):
        return st.fixed_dictionaries({
            "site": st.sampled_from(EMPTY_SITES),
            "guard": st.sampled_from(["True", "False", "flag", "not flag",
                                      None]),
            "flag": st.booleans(),
            "lead": st.sampled_from(["", "\n", "é日本\n  ", "<!-- c -->\n\n",
                                     "<i>${1 + 1}</i>"]),
            "tail": st.sampled_from(["", "<b>${2 + 2}</b>", "\n"]),
            # how the two modes are obtained: constructor option, class
            # attribute, or two loaders over one directory (the file is
            # loaded by both, in either order, in one process)
            "via": st.sampled_from(["option", "option", "class",
                                    "loaders_strict_first",
                                    "loaders_lenient_first",
                                    "load_strict_first",
                                    "load_lenient_first"]),
            "renders": st.integers(1, 2),
        })

    def both(self, case, src):
        """(outcome of strict construction/compilation, outcome of
        non-strict construction)"""
        import shutil
        import tempfile
        from chameleon import PageTemplateFile, PageTemplateLoader
        via = case["via"]
        if not via.startswith("load"):
            return run(make, src, True, via), run(make, src, False, via)
        tmp = tempfile.mkdtemp(prefix="c19-")
        self._tmp = tmp
        with open(os.path.join(tmp, "page.pt"), "w", encoding="utf-8") as f:
            f.write(src)
        with open(os.path.join(tmp, "parent.pt"), "w") as f:
            f.write('<x metal:use-macro="load: page.pt" />')

        def get(strict):
            if via.startswith("loaders"):
                t = PageTemplateLoader(tmp, strict=strict).load("page.pt")
                t.cook_check()
                return t
            t = PageTemplateFile(os.path.join(tmp, "parent.pt"),
                                 strict=strict)
            if strict:
                t.render(flag=case["flag"])
            return t
        if via.endswith("strict_first"):
            a = run(get, True)
            b = run(get, False)
        else:
            b = run(get, False)
            a = run(get, True)
        return a, b

    def reached(self, case):
        g = case["guard"]
        if g is None or g == "True":
            return True
        if g == "False":
            return False
        return case["flag"] if g == "flag" else not case["flag"]

    def labels(self, case):
        yield "reached" if self.reached(case) else "unreached"

    def nontrivial(self, case):
        return True

    def source(self, case):
        inner = case["site"]
        if case["guard"] is not None:
            inner = '<tal:g condition="%s">%s</tal:g>' % (case["guard"],
                                                            inner)
        return "<div>" + case["lead"] + inner + case["tail"] + "</div>"

    def sample(self, case):
        return {"source": self.source(case), "flag": case["flag"]}

    def oracle(self, case):
        from chameleon.exc import ExpressionError
        src = self.source(case)
        detail = {"source": src, "flag": case["flag"], "via": case["via"]}
        self._tmp = None
        try:
            return self._oracle(case, src, detail)
        finally:
            if self._tmp:
                import shutil
                shutil.rmtree(self._tmp, ignore_errors=True)

    def _oracle(self, case, src, detail):
        from chameleon.exc import ExpressionError
        o, lenient = self.both(case, src)
        if o.ok:
            return Mismatch("empty:strict accepted an empty expression",
                            detail)
        if not isinstance(o.exc, ExpressionError):
            return Mismatch("empty:strict raises " + o.exc_name,
                            dict(detail, outcome=o.brief()))
        strict = o.exc
        want = (str(strict.token), strict.offset, tuple(strict.location),
                strict.args[0] if strict.args else None)
        site_at = src.index(case["site"])
        if not (site_at <= strict.offset <= site_at + len(case["site"])):
            return Mismatch("empty:strict error points outside the site",
                            dict(detail, offset=strict.offset))
        o = lenient
        if not o.ok:
            return Mismatch("empty:non-strict construction raises " +
                            o.exc_name, dict(detail, outcome=o.brief()))
        t = o.value
        for r in range(case["renders"]):
            o = run(t.render, flag=case["flag"])
            if not self.reached(case):
                exp = "<div>" + case["lead"].replace(
                    "${1 + 1}", "2") + case["tail"].replace(
                        "${2 + 2}", "4") + "</div>"
                if not o.ok or o.value != exp:
                    return Mismatch(
                        "empty:unreached site disturbs the rendering",
                        dict(detail, expected=exp, got=o.value if o.ok
                             else o.brief()))
                continue
            if o.ok:
                return Mismatch("empty:reached site renders", dict(
                    detail, got=o.value))
            if not isinstance(o.exc, ExpressionError):
                return Mismatch("empty:non-strict rendering raises " +
                                o.exc_name, dict(detail, outcome=o.brief()))
            got = (str(o.exc.token), o.exc.offset, tuple(o.exc.location),
                   o.exc.args[0] if o.exc.args else None)
            if got != want:
                return Mismatch("empty:not the error of strict mode", dict(
                    detail, strict=list(want), non_strict=list(got)))
        return None


CHECK = Check(
    "C19", "exploration",
    rule=("valid: TALES-rich templates rendered under strict=True and "
          "strict=False, non-trivial = an element with >= 2 statements; "
          "planted: templates with 1..3 uniquely marked invalid expressions "
          "at random expression sites (whole expression, or a later pipe "
          "alternative), non-trivial = the bindings do NOT reach any planted "
          "site; distinct by sha1; empty: 16 sites whose expression is "
          "invalid for want of any text x guards (constant / variable "
          "conditions) x leading text, strict vs non-strict, 1..2 "
          "renderings"),
    parts=[Valid(), Planted(), CodeBlocks(), Empty()],
    assumptions=[
        "which of several planted sites strict compilation reports is not "
        "asserted (compilation order is not document order)",
        "reachability comes from the reference interpreter (vlib/tmodel.py)",
        "K7 is attributed only when the planted text is a later pipe "
        "alternative AND the deviation model (the whole expression is the "
        "deferred unit) reproduces result and call log",
    ],
    technique="differential strict vs non-strict + planted invalid "
              "expressions with known offsets + reachability from the "
              "reference interpreter",
)
