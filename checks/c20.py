"""C20 - Text-mode templates copy their source verbatim except for ${...}
and $$.

A case is a list of parts: literal atoms (markup characters, quotes,
newlines, things that look like template attributes, '$$', lone '$',
braces) and ${expr} parts.  The generator knows the parts, so

    expected = concat( literal with '$$' -> '$'  |  text(value(expr)) )

where text() is the *unescaped* conversion (None -> '', bytes decoded,
__html__ raw, everything else str()).  Newlines: CR / CRLF become LF
unless the source starts with '<?xml' (documented for non-XML mode).
The file class must return exactly expected.encode(encoding or 'utf-8').
"""
from __future__ import annotations

import os
import shutil
import tempfile

from hypothesis import strategies as st

from vlib import pyexprs, values
from vlib.cham import run
from vlib.fuzz import FuzzStage
from vlib.harness import Check, Mismatch, Part

LIT = (
    list("abcXYZ 019") +
    ["<", ">", "&", '"', "'", "/", "!", "?", "-", "=", ";", ":", "#",
     # characters that some text functions take for line breaks
     "\x0c", "\x0b", "\x1c", "\x1e", "\x85", "\u2028", "\u2029",
     "<p>", "</p>", "<br/>", "<!-- c -->", "<![CDATA[x]]>", "<?php x ?>",
     "<?python y = 1 ?>", "<!DOCTYPE html>", "&amp;", "&lt;", "&#38;",
     'tal:content="x"', '<p tal:content="x">', '<b tal:replace="1">',
     "metal:use-macro", 'i18n:translate=""', "\n", "\n\n", "\t", "  ",
     "é", "日本", "ß", "{", "}", "{}", "}{", "{x}", "$$", "$$$$", "$",
     "\\", "\\$", "%s", "%(a)s", "</x>", "<x ", " a=b", "]]>", "-->",
     # an empty pair of braces holds no expression: it is text
     "${}", "${}", "a${}b"]
)
CR = ["\r\n", "\r"]
LATIN1_OK = [a for a in LIT if all(ord(c) < 256 for c in a)]


def lit_expected(atom):
    return atom.replace("$$", "$")


def _odd_trailing(s):
    """True if s ends in a run of '$' of odd length (a pending lone '$')."""
    n = len(s) - len(s.rstrip("$"))
    return n % 2 == 1


def assemble(parts, outs=None):
    """Return (source, expected).  A separator space is inserted wherever a
    pending lone '$' would otherwise merge with a following '$' or '{'
    (which would change the meaning of both parts).  ``outs`` gives the
    expected output of every part."""
    src, exp = "", ""
    for i, p in enumerate(parts):
        piece = p[1] if p[0] == "lit" else \
            "${" + p[1]["src"].replace("\2", "&") + "}"
        if _odd_trailing(src) and piece[:1] in ("$", "{"):
            src += " "
            exp += " "
        src += piece
        if outs is not None:
            exp += outs[i]
    return src, exp


def model_text(v):
    """Unescaped text conversion of a value (text mode)."""
    if v is None:
        return ""
    if isinstance(v, bytes):
        return None  # decided by caller (needs encoding)
    if type(v) is str:
        return v
    if type(v) in (int, float):
        return str(v)
    m = getattr(v, "__html__", None)
    if m is not None:
        return m()
    return str(v)


class Text(Part):
    name = "text"
    examples = {"quick": 3000, "thorough": 120000}
    floors = {"starts_lt": 0.05, "has_expr": 0.5, "file": 0.2}

    def strategy(self, tier):
        n = 8 if tier == "quick" else 14

        @st.composite
        def case(draw):
            cls = draw(st.sampled_from(["str", "str", "file", "bytes"]))
            enc = draw(st.sampled_from([None, "utf-8", "latin-1"])) \
                if cls == "file" else None
            atoms = LATIN1_OK if enc == "latin-1" else LIT
            use_cr = draw(st.integers(0, 4)) == 0
            lits = st.sampled_from(atoms + (CR if use_cr else []))
            hostile = enc != "latin-1"
            vals = {
                "a": draw(self._value(hostile)),
                "b": draw(self._value(hostile)),
            }
            part = st.one_of(
                st.builds(lambda s: ["lit", s], lits),
                st.builds(lambda s: ["lit", s], lits),
                st.builds(lambda e: ["expr", e],
                          pyexprs.exprs(exclude=("amp_entity", "nonlatin"))),
            )
            parts = draw(st.lists(part, min_size=1, max_size=n))
            if draw(st.integers(0, 3)) == 0:
                parts.insert(0, ["lit", draw(st.sampled_from(
                    ["<", "<p>", "</x>", "<!--", "<?xml version='1.0'?>",
                     '<p tal:content="a">', "<x ", "<![CDATA["]))])
            # three interpolations in a row, the last two being different
            # expressions with look-alike texts
            if draw(st.integers(0, 5)) == 0:
                tw = draw(pyexprs.twins())
                parts += [["expr", draw(pyexprs.exprs(
                    exclude=("amp_entity", "nonlatin")))], ["lit", " "],
                    ["expr", tw[0]], ["lit", "|"], ["expr", tw[1]]]
            # escaped interpolations ($${...} is the text ${...}) at the
            # very start and directly behind an interpolation
            esc = ["$${x}", "$$$${a}", "$${a}$${b}", "$${", "$$"]
            if draw(st.integers(0, 4)) == 0:
                parts.insert(0, ["lit", draw(st.sampled_from(esc))])
            if draw(st.integers(0, 3)) == 0:
                idx = [i for i, p_ in enumerate(parts) if p_[0] == "expr"]
                if idx:
                    i = draw(st.sampled_from(idx))
                    parts.insert(i + 1, ["lit", draw(st.sampled_from(esc))])
            form = "plain"
            if cls == "file":
                # the file may carry its own encoding marker; the OUTPUT
                # encoding is the template's 'encoding' option all the same
                form = draw(st.sampled_from(["plain", "plain", "bom",
                                             "xmldecl", "utf16"]))
                if form == "xmldecl":
                    parts.insert(0, ["lit", "<?xml version='1.0' "
                                     "encoding='utf-8'?>\n"])
            return {"cls": cls, "encoding": enc, "parts": parts,
                    "bindings": vals, "file_form": form}
        return case()

    @staticmethod
    def _value(hostile):
        if hostile:
            return values.scalars(True)
        # latin-1 repertoire only
        t = st.lists(st.sampled_from(
            ["", "a", "<b>", "&", "é", "x y", '"', "'", "ß"]),
            max_size=3).map("".join)
        return st.one_of(
            st.just(["none"]), st.builds(lambda n: ["int", n],
                                         st.integers(0, 99)),
            st.builds(lambda s: ["str", s], t),
            st.builds(lambda s: ["bytes", s], t),
            st.builds(lambda s: ["html", s], t),
            st.builds(lambda s: ["obj", s], t))

    def source(self, case):
        return assemble(case["parts"])[0]

    def expected(self, case):
        enc = case["encoding"]
        env = values.env(case["bindings"], enc or "utf-8")
        out = []
        # line endings of the SOURCE are normalised (a CR LF pair may be
        # written across two literal pieces); inserted values are not
        norm = not assemble(case["parts"])[0].startswith("<?xml")
        parts = case["parts"]
        for i, p in enumerate(parts):
            if p[0] == "lit":
                t = lit_expected(p[1])
                if norm:
                    nxt = parts[i + 1] if i + 1 < len(parts) else None
                    if t.endswith("\r") and nxt is not None and \
                            nxt[0] == "lit" and nxt[1].startswith("\n"):
                        t = t[:-1]
                    t = t.replace("\r\n", "\n").replace("\r", "\n")
                out.append(t)
            else:
                v = pyexprs.evaluate(p[1]["src"], env)
                if isinstance(v, bytes):
                    out.append(v.decode(enc or "utf-8"))
                else:
                    out.append(model_text(v))
        src, exp = assemble(case["parts"], out)
        return exp

    def nontrivial(self, case):
        src = self.source(case)
        has_expr = any(p[0] == "expr" for p in case["parts"])
        lit = "".join(p[1] for p in case["parts"] if p[0] == "lit")
        return has_expr and any(c in lit for c in "<>&")

    def labels(self, case):
        src = self.source(case)
        if src.startswith("<"):
            yield "starts_lt"
        if any(p[0] == "expr" for p in case["parts"]):
            yield "has_expr"
        if "$$" in src:
            yield "dollar_dollar"
        if "\r" in src:
            yield "cr"
        if case["cls"] != "str":
            yield "file"
        yield "cls_" + case["cls"]
        if case.get("file_form", "plain") != "plain":
            yield "file_" + case["file_form"]

    def sample(self, case):
        return {"source": self.source(case), "bindings": case["bindings"],
                "cls": case["cls"], "encoding": case["encoding"],
                "expected": self.expected(case)}

    def setup_shard(self, tier, shard):
        self.tmp = tempfile.mkdtemp(prefix="c20-")

    def teardown_shard(self):
        shutil.rmtree(getattr(self, "tmp", ""), ignore_errors=True)

    def oracle(self, case):
        from chameleon import PageTextTemplate, PageTextTemplateFile
        src = self.source(case)
        exp = self.expected(case)
        enc = case["encoding"]
        env = values.env(case["bindings"], enc or "utf-8")
        if case["cls"] == "str":
            o = run(PageTextTemplate, src)
        elif case["cls"] == "bytes":
            o = run(PageTextTemplate, src.encode("utf-8"))
        else:
            tmp = getattr(self, "tmp", None) or tempfile.gettempdir()
            path = os.path.join(tmp, "t%d.txt" % (abs(hash(src)) % 10**9))
            import codecs
            form = case.get("file_form", "plain")
            if form == "bom":
                data = codecs.BOM_UTF8 + src.encode("utf-8")
            elif form == "utf16":
                data = codecs.BOM_UTF16_LE + src.encode("utf-16-le")
            else:
                data = src.encode("utf-8")
            with open(path, "wb") as f:
                f.write(data)
            kw = {} if enc is None else {"encoding": enc}
            o = run(PageTextTemplateFile, path, **kw)
        if not o.ok:
            return Mismatch("text:compile raises " + o.exc_name,
                            {"source": src, "outcome": o.brief()})
        o = run(o.value.render, **env)
        if case["cls"] == "file":
            try:
                os.unlink(path)
            except OSError:
                pass
        if not o.ok:
            return Mismatch("text:render raises " + o.exc_name,
                            {"source": src, "outcome": o.brief(),
                             "bindings": case["bindings"]})
        want = exp.encode(enc or "utf-8") if case["cls"] == "file" else exp
        if type(o.value) is not type(want):
            return Mismatch("text:result type", {
                "source": src, "got_type": type(o.value).__name__})
        if o.value != want:
            return Mismatch("text:differs", {
                "source": src, "got": repr(o.value), "expected": repr(want),
                "bindings": case["bindings"], "cls": case["cls"],
                "encoding": enc})
        return None


CHECK = Check(
    "C20", "exploration",
    rule=("sequences of literal atoms (markup characters, quotes, things "
          "resembling template attributes, newlines, '$$', lone '$', braces, "
          "non-ASCII) and ${expr} parts with expressions from vlib/pyexprs.py, "
          "for PageTextTemplate(str), PageTextTemplate(bytes) and "
          "PageTextTemplateFile (encoding None/utf-8/latin-1); non-trivial = "
          "at least one ${} and one of < > & among the literals; distinct by "
          "sha1 of the case"),
    parts=[Text()],
    stages=[FuzzStage("checks.c20", "text", 20000)],
    assumptions=[
        "expression values are computed by Python eval on the generator's "
        "own source text",
        "expressions contain no entity-like text (&name;): decoding of "
        "entities inside text-mode expressions is not specified",
        "template files are stored as UTF-8; the file class's 'encoding' "
        "option governs the output and the decoding of bytes values",
    ],
    technique="Hypothesis part-list generation with constructive expected "
              "output (reference model of text mode)",
)
