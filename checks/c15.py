"""C15 - The on-disk module cache is sound and crash-safe.

Every configuration is rendered by *child processes* that import Chameleon
with CHAMELEON_CACHE pointing at a scratch directory (vlib/fsfault.py).
The reference outcome of a configuration is computed in this process,
without any cache directory.

Stages
  pairs     exhaustive over the option list: the base configuration and
            every configuration differing from it in exactly one
            constructor option / body / template class, in either order,
            (i) in one process and (ii) in two consecutive processes
            sharing the cache directory; a probe template makes every
            option visible in the output.  Oracle: outcome with cache ==
            outcome without.
  mix       Hypothesis: random subsets of option changes, 2..4
            configurations over 1..3 consecutive processes.
  crash     the file-system steps of storing a module are listed by a dry
            run (interposition on tempfile/os/open/py_compile in the child);
            for EVERY step k a writer is killed (os._exit) right before
            step k; then a fresh process lists the directory and renders the
            same template with the cache enabled.  Oracle: outcome == the
            no-cache outcome; no '*.py' entry that fails to parse or lacks
            the module's entry point.
  writers   two writers of the same entry, stopped before every step by a
            turnstile owned by this process, are played through
            interleavings (all with <= 2 context switches in thorough,
            drawn ones in quick), then a reader as above.
"""
from __future__ import annotations

import itertools
import json
import multiprocessing
import os
import shutil
import subprocess
import sys
import tempfile

from vlib.harness import Check, HarnessError, Mismatch, Stage, NCPU, ROOT

SRC = os.environ.get("VERIF_SRC", "/repo/src")

PROBE = (
    '<html xmlns:foo="urn:foo">\n'
    '<input tal:attributes="checked flag; zap flag" />\n'
    '<a title="hello" href="x">link</a>\n'
    '<p>some text</p>\n'
    '<a  x="1"\n   y="2">sp</a>\n'
    "<i data-tal-content=\"'D'\">d</i>\n"
    '<!-- c ${1 + 1} -->\n'
    '<b tal:content="1 + 1">b</b>\n'
    '<u tal:condition="reach" tal:content="1 +">never</u>\n'
    "<s>${foo | 'nofoo'}${bar | 'nobar'}</s>\n"
    '</html>')
PROBE_NS = PROBE.replace("<p>some text</p>", '<p bar:baz="1">some text</p>')

BASE = {"cls": "PageTemplate", "body": PROBE, "options": {"strict": False},
        "kwargs": {"flag": True, "reach": False}}

# name -> change applied to a copy of BASE
VARIANTS = {
    "body": {"body": PROBE.replace("some text", "other text")},
    "class_text": {"cls": "PageTextTemplate"},
    "boolean_attributes": {"options": {"boolean_attributes": ["zap"]}},
    "boolean_attributes_empty": {"options": {"boolean_attributes": []}},
    "implicit_i18n_attributes": {"options": {
        "implicit_i18n_attributes": ["title"], "translate_upper": True}},
    "implicit_i18n_translate": {"options": {
        "implicit_i18n_translate": True, "translate_upper": True}},
    "translate_only": {"options": {"translate_upper": True}},
    "trim_attribute_space": {"options": {"trim_attribute_space": True}},
    "enable_data_attributes": {"options": {"enable_data_attributes": True}},
    "enable_comment_interpolation": {"options": {
        "enable_comment_interpolation": False}},
    "restricted_namespace": {"body": PROBE_NS, "options": {
        "restricted_namespace": False}},
    "restricted_namespace_body": {"body": PROBE_NS},
    "default_expression": {"options": {"default_expression": "string"}},
    "strict": {"options": {"strict": True}},
    "extra_builtins_foo": {"options": {"extra_builtins": {"foo": "F"}}},
    "extra_builtins_bar": {"options": {"extra_builtins": {"bar": "B"}}},
    "encoding": {"options": {"encoding": "latin-1"}},
    # same cache entry, but this time the deferred invalid expression is
    # reached (by another process than the one that compiled it)
    "reach_invalid": {"kwargs": {"flag": True, "reach": True}},
    # application subclasses with different class-level configuration
    "subclass_a": {"cls": "SubA"},
    "subclass_b": {"cls": "SubB"},
}


def variant(name):
    cfg = json.loads(json.dumps(BASE))
    ch = VARIANTS[name]
    for k, v in ch.items():
        if k == "options":
            cfg["options"].update(v)
        else:
            cfg[k] = v
    return cfg


def combine(names):
    cfg = json.loads(json.dumps(BASE))
    for n in names:
        for k, v in VARIANTS[n].items():
            if k == "options":
                cfg["options"].update(v)
            else:
                cfg[k] = v
    return cfg


def reference(cfg):
    """Outcome without any cache directory (this process)."""
    from vlib import fsfault
    assert not os.environ.get("CHAMELEON_CACHE")
    return fsfault.run_job(cfg)


def child(cache, spec, timeout=120):
    """Run one child; returns (returncode, result dict | None, raw)"""
    fd, path = tempfile.mkstemp(prefix="c15job-", suffix=".json")
    with os.fdopen(fd, "w") as f:
        json.dump(spec, f)
    env = dict(os.environ)
    env["CHAMELEON_CACHE"] = cache
    env["PYTHONPATH"] = SRC + os.pathsep + ROOT + os.pathsep + \
        os.path.join(ROOT, ".deps")
    env.pop("CHAMELEON_DEBUG", None)
    try:
        p = subprocess.run([sys.executable, "-m", "vlib.fsfault", path],
                           env=env, cwd=ROOT, capture_output=True, text=True,
                           timeout=timeout)
    finally:
        os.unlink(path)
    res = None
    for line in p.stdout.splitlines():
        if line.startswith("RESULT "):
            res = json.loads(line[7:])
    return p.returncode, res, (p.stdout[-500:], p.stderr[-1500:])


def same(a, b):
    if "out" in a or "out" in b:
        return a.get("out") == b.get("out")
    return a.get("exc") == b.get("exc")


def run_history(procs):
    """procs: list of lists of configurations (one list per process, run in
    order on one fresh cache directory).  Returns list of (cfg, got, ref)
    that differ."""
    cache = tempfile.mkdtemp(prefix="c15-")
    bad = []
    try:
        for jobs in procs:
            if isinstance(jobs, dict):
                # between two processes: a template file is (re)written
                os.makedirs(os.path.dirname(jobs["write"]), exist_ok=True)
                with open(jobs["write"], "w", encoding="utf-8") as f:
                    f.write(jobs["body"])
                if "mtime" in jobs:
                    os.utime(jobs["write"], (jobs["mtime"], jobs["mtime"]))
                continue
            rc, res, raw = child(cache, {"mode": "plain", "jobs": jobs})
            if res is None:
                raise HarnessError("child failed rc=%s %r" % (rc, raw))
            for cfg, got in zip(jobs, res["results"]):
                ref = reference(cfg)
                if not same(got, ref):
                    bad.append({"config": cfg, "with_cache": got,
                                "without_cache": ref})
    finally:
        shutil.rmtree(cache, ignore_errors=True)
    return bad


def _pair_job(args):
    name, order, two_procs = args
    a, b = BASE, variant(name)
    if name == "subclass_b":
        a = variant("subclass_a")
    seq = [a, b] if order == 0 else [b, a]
    procs = [[seq[0]], [seq[1]]] if two_procs else [seq]
    try:
        bad = run_history(procs)
    except HarnessError as e:
        return (args, None, str(e))
    return (args, bad, None)


class Pairs(Stage):
    name = "pairs"

    def oracle(self, case):
        r = _pair_job((case["variant"], case["order"], case["two_procs"]))
        if r[2]:
            raise HarnessError(r[2])
        if r[1]:
            return Mismatch("pairs:" + case["variant"], r[1][0])
        return None

    def run(self, tier, seed, check):
        # every option must really change the probe's outcome
        base_ref = reference(BASE)
        inert = [n for n in VARIANTS if same(reference(variant(n)), base_ref)
                 and n not in ("translate_only", "encoding",
                               "restricted_namespace_body",
                               "boolean_attributes_empty", "subclass_a")]
        jobs = [(n, o, t) for n in sorted(VARIANTS) for o in (0, 1)
                for t in (False, True)]
        ctx = multiprocessing.get_context("fork")
        with ctx.Pool(NCPU) as pool:
            res = pool.map(_pair_job, jobs, chunksize=1)
        failures, harness = [], []
        seen = set()
        for args, bad, err in res:
            if err:
                harness.append(err)
            elif bad and args[0] not in seen:
                seen.add(args[0])
                failures.append((
                    {"variant": args[0], "order": args[1],
                     "two_procs": args[2]},
                    Mismatch("pairs:" + args[0], bad[0])))
        if inert:
            harness.append("probe does not distinguish: %r" % inert)
        return {
            "evaluations": len(jobs) * 2,
            "nontrivial_ids": ["%s-%d-%s" % j for j in jobs
                               if j[0] not in ("translate_only", "encoding")],
            "failures": failures, "harness": harness,
            "samples": [{"variant": "strict", "order": 1, "two_procs": True,
                         "probe": PROBE}],
            "info": {"exhaustive": True, "variants": sorted(VARIANTS),
                     "pairs_run": len(jobs)},
        }


def _mix_job(case):
    procs = [[combine(names) for names in p] for p in case["procs"]]
    try:
        return (case, run_history(procs), None)
    except HarnessError as e:
        return (case, None, str(e))


class Mix(Stage):
    name = "mix"

    def oracle(self, case):
        c, bad, err = _mix_job(case)
        if err:
            raise HarnessError(err)
        if bad:
            return Mismatch("mix:cached outcome differs", bad[0])
        return None

    def run(self, tier, seed, check):
        import hypothesis
        from hypothesis import HealthCheck, Phase, given, settings
        from hypothesis import strategies as st
        n = 40 if tier == "quick" else 1500
        names = sorted(VARIANTS)
        cfgs = st.lists(st.sampled_from(names), max_size=3, unique=True)
        cases = []

        @settings(max_examples=n, database=None, deadline=None,
                  phases=[Phase.generate],
                  suppress_health_check=list(HealthCheck))
        @hypothesis.seed(seed)
        @given(st.lists(st.lists(cfgs, min_size=1, max_size=3), min_size=1,
                        max_size=3))
        def collect(procs):
            cases.append({"procs": procs})
        collect()
        ctx = multiprocessing.get_context("fork")
        with ctx.Pool(NCPU) as pool:
            res = pool.map(_mix_job, cases, chunksize=1)
        failures, harness = [], []
        for case, bad, err in res:
            if err:
                harness.append(err)
            elif bad:
                failures.append((case, Mismatch("mix:cached outcome differs",
                                                bad[0])))
        return {
            "evaluations": sum(len(p) for c in cases for p in c["procs"]),
            "nontrivial_ids": [json.dumps(c) for c in cases if sum(
                len(p) for p in c["procs"]) >= 2],
            "failures": failures[:3], "harness": harness[:3],
            "samples": cases[:2],
            "info": {"histories": len(cases)},
        }


XML_PROBE = '<?xml version="1.0"?>\n' + PROBE.replace(
    "<html ", "<html lang='x' ")
TEXT_PROBE = "Dear ${foo | 'nofoo'},\n  total: ${1 + 1}  \n-- \nbye\n"
BODY_BASES = {"html": ("PageTemplate", PROBE),
              "xml": ("PageTemplate", XML_PROBE),
              "text": ("PageTextTemplate", TEXT_PROBE)}


def mutate_body(body, kind, pos):
    """A second body that differs from ``body`` in one small way."""
    def nth(chars):
        idx = [i for i, c in enumerate(body) if c in chars]
        return idx[pos % len(idx)] if idx else None
    if kind == "crlf_all":
        return body.replace("\n", "\r\n")
    if kind == "cr_all":
        return body.replace("\n", "\r")
    if kind in ("crlf_one", "cr_one"):
        i = nth("\n")
        return body[:i] + ("\r\n" if kind == "crlf_one" else "\r") + \
            body[i + 1:]
    if kind == "tab":
        i = nth(" ")
        return body[:i] + "\t" + body[i + 1:]
    if kind == "double_space":
        i = nth(" ")
        return body[:i] + "  " + body[i + 1:]
    if kind == "case":
        i = nth("sometxlinkbdv")
        return body[:i] + body[i].upper() + body[i + 1:]
    if kind == "digit":
        i = nth("12")
        return body[:i] + "7" + body[i + 1:]
    if kind == "combining":
        i = nth("eo")
        return body[:i + 1] + "́" + body[i + 1:]
    if kind == "trailing_newline":
        return body + "\n"
    if kind == "trailing_space":
        return body + " "
    if kind == "nbsp":
        i = nth(" ")
        return body[:i] + " " + body[i + 1:]
    raise HarnessError("unknown mutation " + kind)


BODY_MUTATIONS = ["crlf_all", "cr_all", "crlf_one", "cr_one", "tab",
                  "double_space", "case", "digit", "combining",
                  "trailing_newline", "trailing_space", "nbsp"]


def _concat_job(case):
    """Key material that runs together: what is hashed for one template is
    what is hashed for another one (or for a sequence of others) when the
    pieces are written one after the other."""
    kw = {"options": {"strict": False},
          "kwargs": {"flag": True, "reach": False}}
    x = "<p>first ${1 + 1}</p>"
    y = "<p>second ${2 + 2}</p>"
    kind = case["kind"]
    if kind == "builtin_names":
        body = ("<p>${a | '-'}|${bc | '-'}|${ab | '-'}|${c | '-'}</p>")
        a = {"cls": "PageTemplate", "body": body, "kwargs": {},
             "options": {"extra_builtins": {"a": "A", "bc": "BC"}}}
        b = {"cls": "PageTemplate", "body": body, "kwargs": {},
             "options": {"extra_builtins": {"ab": "AB", "c": "C"}}}
        procs = [[a], [b]] if case["two_procs"] else [[a, b]]
        if case["order"]:
            procs = [list(reversed(p)) for p in reversed(procs)]
    elif kind == "builtin_values":
        # equal names, different values: one entry serves both templates,
        # each renders with its own values
        body = "<p>${a}|${bc}</p>"
        a = {"cls": "PageTemplate", "body": body, "kwargs": {},
             "options": {"extra_builtins": {"a": "ONE", "bc": "1"}}}
        # (the second dictionary lists the names in the other order)
        b = {"cls": "PageTemplate", "body": body, "kwargs": {},
             "options": {"extra_builtins": {"bc": "2", "a": "TWO"}}}
        procs = [[a], [b]] if case["two_procs"] else [[a, b, a]]
        if case["order"]:
            procs = [list(reversed(p)) for p in reversed(procs)]
    elif kind == "content_type":
        # one text, two document types: as str the meta element makes it
        # XML (attribute values as computed, line endings kept), as bytes
        # behind a byte-order mark it is HTML
        body = ('<meta http-equiv="Content-Type" content="text/xml; '
                'charset=utf-8" /><input checked="${flag}" />\r\n<p>x</p>')
        a = {"cls": "PageTemplate", "body": body, "options": {},
             "kwargs": {"flag": True}}
        b = dict(a, as_bytes="utf-8-sig")
        procs = [[a], [b]] if case["two_procs"] else [[a, b, a]]
        if case["order"]:
            procs = [list(reversed(p)) for p in reversed(procs)]
    elif kind in ("file_edit", "file_names", "file_dirs"):
        # file templates: the entry is named after the file; a short name
        # and one of 140 characters (names longer than an entry name may be)
        tmp = tempfile.mkdtemp(prefix="c15f-")
        stem = "page" if case["order"] == 0 else "p" * 140
        v1 = "<p>first ${1 + 1}</p>"
        v2 = "<p>second ${2 + 2}</p>"

        def job(path):
            return {"cls": "PageTemplateFile", "filename": path,
                    "options": {}, "kwargs": {}}
        if kind == "file_edit":
            # the file is edited between two processes (or between two
            # templates of one process)
            path = os.path.join(tmp, "d", stem + ".pt")
            procs = [{"write": path, "body": v1, "mtime": 1000000000},
                     [job(path)],
                     {"write": path, "body": v2, "mtime": 1000000100},
                     [job(path)]]
        elif kind == "file_names":
            # two files whose names start alike
            pa = os.path.join(tmp, "d", stem + "_a.pt")
            pb = os.path.join(tmp, "d", stem + "_b.pt")
            procs = [{"write": pa, "body": v1}, {"write": pb, "body": v2}] + (
                [[job(pa)], [job(pb)]] if case["two_procs"]
                else [[job(pa), job(pb), job(pa)]])
        else:
            # the same name in two directories
            pa = os.path.join(tmp, "one", stem + ".pt")
            pb = os.path.join(tmp, "two", stem + ".pt")
            procs = [{"write": pa, "body": v1}, {"write": pb, "body": v2}] + (
                [[job(pa)], [job(pb)]] if case["two_procs"]
                else [[job(pb), job(pa), job(pb)]])
        try:
            return (case, run_history(procs), None)
        except HarnessError as e:
            return (case, None, str(e))
        finally:
            shutil.rmtree(tmp, ignore_errors=True)
    elif kind == "class_suffix":
        a = dict(kw, cls="SubA", body=x)
        b = dict(kw, cls="A", body=x + "Sub")
        procs = [[a], [b]] if case["two_procs"] else [[a, b]]
        if case["order"]:
            procs = [list(reversed(p)) for p in reversed(procs)]
    else:
        names = {"class_between": "PageTemplate", "nothing_between": "",
                 "text_class_between": "PageTextTemplate"}
        z = x + names[kind] + y
        cx, cy, cz = (dict(kw, cls="PageTemplate", body=b_)
                      for b_ in (x, y, z))
        procs = [[[cx, cy], [cz]], [[cz], [cx, cy]], [[cx, cy, cz]],
                 [[cy, cx], [cz]], [[cx], [cy], [cz]]][case["order"] % 5]
    try:
        return (case, run_history(procs), None)
    except HarnessError as e:
        return (case, None, str(e))


def _body_job(case):
    if case.get("base") == "concat":
        return _concat_job(case)
    cls, body = BODY_BASES[case["base"]]
    a = {"cls": cls, "body": body, "options": {"strict": False},
         "kwargs": {"flag": True, "reach": False}}
    b = dict(a, body=mutate_body(body, case["kind"], case["pos"]))
    seq = [a, b] if case["order"] == 0 else [b, a]
    procs = [[seq[0]], [seq[1]]] if case["two_procs"] else [seq]
    try:
        return (case, run_history(procs), None)
    except HarnessError as e:
        return (case, None, str(e))


class Bodies(Stage):
    """Two bodies that differ in one small way (a line-ending style, one
    blank, the case of one letter, a combining mark ...) compiled into one
    cache directory in either order."""
    name = "bodies"

    def oracle(self, case):
        c, bad, err = _body_job(case)
        if err:
            raise HarnessError(err)
        if bad:
            return Mismatch("bodies:%s/%s" % (case["base"], case["kind"]),
                            bad[0])
        return None

    def run(self, tier, seed, check):
        import hypothesis
        from hypothesis import HealthCheck, Phase, given, settings
        from hypothesis import strategies as st
        cases = []
        if tier == "quick":
            # every base x every mutation once, the rest drawn
            n = 0
            for base in sorted(BODY_BASES):
                for kind in BODY_MUTATIONS:
                    cases.append({"base": base, "kind": kind,
                                  "pos": seed + n, "order": (seed + n) % 2,
                                  "two_procs": (seed + n) % 3 == 0})
                    n += 1
        else:
            for base in sorted(BODY_BASES):
                for kind in BODY_MUTATIONS:
                    for order in (0, 1):
                        for two in (False, True):
                            for pos in range(6):
                                cases.append({"base": base, "kind": kind,
                                              "pos": pos + seed,
                                              "order": order,
                                              "two_procs": two})
        for kind in ("class_suffix", "builtin_names", "builtin_values",
                     "content_type", "file_edit", "file_names", "file_dirs",
                     "class_between", "nothing_between",
                     "text_class_between"):
            pairwise = kind in ("class_suffix", "builtin_names",
                                "builtin_values", "content_type",
                                "file_edit", "file_names", "file_dirs")
            for order in range(2 if pairwise else 5):
                for two in ((False, True) if pairwise else (False,)):
                    cases.append({"base": "concat", "kind": kind,
                                  "order": order, "two_procs": two,
                                  "pos": 0})
        ctx = multiprocessing.get_context("fork")
        with ctx.Pool(NCPU) as pool:
            res = pool.map(_body_job, cases, chunksize=1)
        failures, harness, seen = [], [], set()
        same_out = 0
        for case, bad, err in res:
            if err:
                harness.append(err)
            elif bad:
                b = "bodies:%s/%s" % (case["base"], case["kind"])
                if b not in seen:
                    seen.add(b)
                    failures.append((case, Mismatch(b, bad[0])))
        return {
            "evaluations": len(cases) * 2,
            "nontrivial_ids": [json.dumps(c, sort_keys=True) for c in cases],
            "failures": failures[:6], "harness": harness[:3],
            "samples": cases[:2],
            "info": {"pairs": len(cases), "mutations": BODY_MUTATIONS,
                     "bases": sorted(BODY_BASES)},
        }


CRASH_CFGS = {
    "small": {"cls": "PageTemplate", "body": "<p>${1 + 6}</p>",
              "options": {}, "kwargs": {}},
    "large": {"cls": "PageTemplate", "body": "<div>" + "".join(
        '<p tal:content="%d + 1">x</p>\n' % i for i in range(120)) + "</div>",
        "options": {}, "kwargs": {}},
}


def check_reader(cache, cfg):
    """A fresh process renders ``cfg`` with the cache; returns problems."""
    problems = []
    # entries that a later process would load must be complete modules
    for root, dirs, files in os.walk(cache):
        for fn in files:
            if fn.endswith(".py"):
                p = os.path.join(root, fn)
                with open(p, "rb") as f:
                    data = f.read()
                try:
                    compile(data, p, "exec")
                    ok = b"def initialize" in data
                except SyntaxError:
                    ok = False
                if not ok:
                    problems.append({"truncated_or_unparsable_entry": fn,
                                     "size": len(data)})
    rc, res, raw = child(cache, {"mode": "plain", "jobs": [cfg]})
    if res is None:
        problems.append({"reader_died": rc, "stderr": raw[1][-400:]})
        return problems
    ref = reference(cfg)
    if not same(res["results"][0], ref):
        problems.append({"reader_outcome": res["results"][0],
                         "without_cache": ref})
    return problems


def other_fs_dir():
    """A writable directory on another file system than the temporary
    directory (a rename between the two is not possible), or None."""
    here = os.stat(tempfile.gettempdir()).st_dev
    for cand in ("/dev/shm", "/var/tmp", "/run/user/%d" % os.getuid(),
                 os.path.expanduser("~")):
        try:
            if os.path.isdir(cand) and os.access(cand, os.W_OK) and \
                    os.stat(cand).st_dev != here:
                return cand
        except OSError:
            pass
    return None


def dry_steps(cfg, base=None):
    cache = tempfile.mkdtemp(prefix="c15-", dir=base)
    try:
        rc, res, raw = child(cache, {"mode": "dry", "jobs": [cfg]})
        if res is None:
            raise HarnessError("dry run failed rc=%s %r" % (rc, raw))
        steps = res["steps"]
        finals = [f for f, _ in res["files"] if f.endswith(".py")]
        return steps, finals
    finally:
        shutil.rmtree(cache, ignore_errors=True)


def _crash_job(args):
    name, k = args[:2]
    base = args[2] if len(args) > 2 else None
    cfg = CRASH_CFGS[name]
    cache = tempfile.mkdtemp(prefix="c15-", dir=base)
    try:
        rc, res, raw = child(cache, {"mode": "crash", "crash_at": k,
                                     "jobs": [cfg]})
        if rc != 77:
            return (args, None, "writer was not killed at step %d (rc=%s)"
                    % (k, rc))
        return (args, check_reader(cache, cfg), None)
    except HarnessError as e:
        return (args, None, str(e))
    finally:
        shutil.rmtree(cache, ignore_errors=True)


class Crash(Stage):
    name = "crash"

    def oracle(self, case):
        a, problems, err = _crash_job((case["config"], case["step"],
                                       case.get("base")))
        if err:
            raise HarnessError(err)
        if problems:
            return Mismatch("crash:" + sorted(problems[0])[0], {
                "config": case["config"], "step": case["step"],
                "problems": problems})
        return None

    def run(self, tier, seed, check):
        jobs, info, harness = [], {}, []
        # the cache directory next to the temporary directory and - where
        # the machine has one - on another file system
        bases = [None]
        if other_fs_dir():
            bases.append(other_fs_dir())
        for base in bases:
            for name, cfg in CRASH_CFGS.items():
                steps, finals = dry_steps(cfg, base)
                info[name + ("@" + base if base else "")] = steps
                if base is None:
                    info[name] = steps
                if not any(s.startswith("write") for s in steps) or \
                        not finals:
                    harness.append(
                        "interposition saw no write / no final entry for "
                        "%s: %r %r" % (name, steps, finals))
                jobs += [(name, k, base) for k in range(len(steps))]
        ctx = multiprocessing.get_context("fork")
        with ctx.Pool(NCPU) as pool:
            res = pool.map(_crash_job, jobs, chunksize=1)
        failures = []
        for args, problems, err in res:
            if err:
                harness.append(err)
            elif problems:
                key = args[0] + ("@" + args[2] if args[2] else "")
                failures.append((
                    {"config": args[0], "step": args[1], "base": args[2],
                     "step_name": info[key][args[1]]},
                    Mismatch("crash:" + sorted(problems[0])[0], {
                        "config": args[0], "step": args[1],
                        "cache_directory_under": args[2],
                        "step_name": info[key][args[1]],
                        "problems": problems})))
        return {
            "evaluations": len(jobs),
            "nontrivial_ids": ["%s@%d@%s" % j for j in jobs],
            "failures": failures[:4], "harness": harness[:3],
            "samples": [{"steps": info}],
            "info": {"exhaustive": True, "steps": info,
                     "crash_points": len(jobs)},
        }


def play(cfg, schedule):
    """Two turnstile writers of the same entry; ``schedule`` is a list of
    writer indices (who takes the next step).  Returns problems."""
    cache = tempfile.mkdtemp(prefix="c15-")
    procs = []
    try:
        env = dict(os.environ)
        env["CHAMELEON_CACHE"] = cache
        env["PYTHONPATH"] = SRC + os.pathsep + ROOT + os.pathsep + \
            os.path.join(ROOT, ".deps")
        fd, path = tempfile.mkstemp(prefix="c15job-", suffix=".json")
        with os.fdopen(fd, "w") as f:
            json.dump({"mode": "turnstile", "jobs": [cfg]}, f)
        for i in range(2):
            procs.append(subprocess.Popen(
                [sys.executable, "-m", "vlib.fsfault", path], env=env,
                cwd=ROOT, stdin=subprocess.PIPE, stdout=subprocess.PIPE,
                stderr=subprocess.PIPE, text=True))
        waiting = [None, None]    # the announced step, or "done"
        results = [None, None]

        def advance(i):
            """read until writer i announces its next step or finishes"""
            while True:
                line = procs[i].stdout.readline()
                if not line:
                    waiting[i] = "done"
                    return
                if line.startswith("STEP "):
                    waiting[i] = line.strip()
                    return
                if line.startswith("RESULT "):
                    results[i] = json.loads(line[7:])
                    waiting[i] = "done"
                    return
        advance(0)
        advance(1)
        order = list(schedule)
        taken = []
        while waiting[0] != "done" or waiting[1] != "done":
            i = order.pop(0) if order else (0 if waiting[0] != "done" else 1)
            if waiting[i] == "done":
                i = 1 - i
            taken.append(i)
            procs[i].stdin.write("go\n")
            procs[i].stdin.flush()
            advance(i)
        for p in procs:
            p.wait(timeout=60)
        os.unlink(path)
        problems = []
        ref = reference(cfg)
        for i in range(2):
            if results[i] is None:
                problems.append({"writer_died": i,
                                 "stderr": procs[i].stderr.read()[-400:]})
            elif not same(results[i]["results"][0], ref):
                problems.append({"writer_outcome": results[i]["results"][0],
                                 "without_cache": ref})
        problems += check_reader(cache, cfg)
        return problems, taken
    finally:
        for p in procs:
            if p.poll() is None:
                p.kill()
            for s in (p.stdin, p.stdout, p.stderr):
                try:
                    s.close()
                except Exception:  # noqa: BLE001
                    pass
        shutil.rmtree(cache, ignore_errors=True)


def _writers_job(schedule):
    try:
        problems, taken = play(CRASH_CFGS["small"], schedule)
        return (schedule, problems, taken, None)
    except Exception as e:  # noqa: BLE001
        return (schedule, None, None, "%s: %s" % (type(e).__name__, e))


class Writers(Stage):
    name = "writers"

    def oracle(self, case):
        s, problems, taken, err = _writers_job(case["schedule"])
        if err:
            raise HarnessError(err)
        if problems:
            return Mismatch("writers:" + sorted(problems[0])[0],
                            {"schedule": case["schedule"],
                             "problems": problems})
        return None

    def run(self, tier, seed, check):
        import random
        steps, _ = dry_steps(CRASH_CFGS["small"])
        n = len(steps)
        schedules = []
        # all interleavings with <= 2 context switches: A^i B^j A^rest ...
        for first in (0, 1):
            for i in range(0, n + 1):
                for j in range(0, n + 1):
                    schedules.append([first] * i + [1 - first] * j)
        rnd = random.Random(seed)      # sampling of an enumerated space
        if tier == "quick":
            rnd.shuffle(schedules)
            schedules = schedules[:40]
        drawn = 60 if tier == "quick" else 2000
        for _ in range(drawn):
            schedules.append([rnd.randint(0, 1) for _ in range(2 * n)])
        ctx = multiprocessing.get_context("fork")
        with ctx.Pool(NCPU) as pool:
            res = pool.map(_writers_job, schedules, chunksize=1)
        failures, harness = [], []
        both = 0
        for s, problems, taken, err in res:
            if err:
                harness.append(err)
                continue
            if taken and 0 in taken and 1 in taken and \
                    taken.index(1 - taken[0]) < n:
                both += 1
            if problems:
                failures.append(({"schedule": s}, Mismatch(
                    "writers:" + sorted(problems[0])[0],
                    {"schedule": s, "problems": problems})))
        return {
            "evaluations": len(schedules),
            "nontrivial_ids": [json.dumps(s) for s in schedules][:both],
            "failures": failures[:3], "harness": harness[:3],
            "samples": [{"schedule": schedules[0], "steps_per_writer": n}],
            "info": {"schedules": len(schedules),
                     "both_writers_overlap": both, "steps_per_writer": n},
        }


def _threads_job(args):
    """One child process plays a chunk of thread schedules."""
    schedules, nthreads = args
    cfg = CRASH_CFGS["small"]
    cache = tempfile.mkdtemp(prefix="c15-")
    try:
        rc, res, raw = child(cache, {"mode": "sched", "jobs": [cfg],
                                     "schedules": schedules,
                                     "threads": nthreads}, timeout=900)
        if res is None:
            return (args, None, "child failed rc=%s %r" % (rc, raw))
        return (args, res["sched"], None)
    finally:
        shutil.rmtree(cache, ignore_errors=True)


class ThreadWriters(Stage):
    """Two (three) threads of one process store and load the same entry
    under harness-owned line-level schedules inside ModuleLoader.get /
    build / _load and BaseTemplate._cook (the process-wide lock and the
    reuse of loaded modules through sys.modules)."""
    name = "threadwriters"

    def oracle(self, case):
        a, res, err = _threads_job(([[0, case["schedule"]]],
                                    case.get("threads", 2)))
        if err:
            raise HarnessError(err)
        m = self.judge(res[0])
        return m

    @staticmethod
    def judge(r):
        if "blocked" in r:
            raise HarnessError("schedule blocked: " + r["blocked"])
        want = "<p>7</p>" + r["marker"]
        for i, x in enumerate(r["results"]):
            if x.get("out") != want:
                return Mismatch("threadwriters:a thread's outcome differs",
                                {"thread": i, "got": x, "expected": want})
        return None

    def run(self, tier, seed, check):
        # calibration: steps of a thread running alone
        a, res, err = _threads_job(([[0, [0] * 100000]], 2))
        if err:
            raise HarnessError(err)
        if "blocked" in res[0]:
            raise HarnessError(res[0]["blocked"])
        n0 = res[0]["steps"][0]
        if n0 < 10:
            raise HarnessError("too few yield points: %r" % (res[0],))
        single = [[a_] * k + [1 - a_] * 1000 for a_ in (0, 1)
                  for k in range(0, n0 + 1)]
        double = [[a_] * k + [1 - a_] * j + [a_] * 1000 for a_ in (0, 1)
                  for k in range(0, n0 + 1) for j in range(1, n0 + 1)]
        import random
        rnd = random.Random(seed)       # sampling of an enumerated space
        rnd.shuffle(double)
        double = double[:40 if tier == "quick" else 1500]
        three = [[rnd.randint(0, 2) for _ in range(3 * n0)]
                 for _ in range(10 if tier == "quick" else 300)]
        jobs = []
        numbered = list(enumerate(single + double))
        size = max(1, len(numbered) // NCPU + 1)
        for i in range(0, len(numbered), size):
            jobs.append(([[k, s] for k, s in numbered[i:i + size]], 2))
        jobs.append(([[10000 + k, s] for k, s in enumerate(three)], 3))
        ctx = multiprocessing.get_context("fork")
        with ctx.Pool(NCPU) as pool:
            out = pool.map(_threads_job, jobs, chunksize=1)
        failures, harness = [], []
        n = 0
        for (schedules, nt), res, err in out:
            if err:
                harness.append(err)
                continue
            by_k = {k: s for k, s in schedules}
            for r in res:
                n += 1
                if "blocked" in r:
                    harness.append(r["blocked"])
                    continue
                m = self.judge(r)
                if m is not None and not failures:
                    failures.append(({"schedule": by_k[r["k"]],
                                      "threads": nt}, m))
        return {
            "evaluations": n,
            "nontrivial_ids": ["t%d" % i for i in range(n)],
            "failures": failures[:2], "harness": harness[:3],
            "samples": [{"schedule": single[3][:12], "threads": 2}],
            "info": {"yield_points_per_thread": n0, "single": len(single),
                     "double": len(double), "three_threads": len(three)},
        }


CHECK = Check(
    "C15", "fault_enumeration",
    rule=("pairs: exhaustive: base configuration x %d single-option variants "
          "x 2 orders x {one process, two consecutive processes}; mix: "
          "Hypothesis-drawn histories of 1..3 processes x 1..3 configurations "
          "each combining up to 3 option changes; crash: every file-system "
          "step of storing a module (as listed by the interposition dry run) "
          "for a small and a large template; writers: two turnstile writers "
          "under enumerated (<= 2 context switches) and drawn interleavings; "
          "non-trivial = pair/history with >= 2 configurations, every crash "
          "point, interleavings in which both writers are active before the "
          "first finishes" % len(VARIANTS)),
    stages=[Pairs(), Bodies(), Mix(), Crash(), Writers(), ThreadWriters()],
    assumptions=[
        "a crash is process death (os._exit): data already handed to the "
        "kernel survives, Python-level buffers are lost; power-loss "
        "semantics are not modelled",
        "file-system activity is observed at the Python level "
        "(tempfile/os/open/shutil/py_compile); byte-code caching done "
        "inside importlib is one step",
        "the reference outcome is the same configuration rendered without "
        "a cache directory in the checking process",
    ],
    technique="exhaustive option-pair enumeration + Hypothesis histories "
              "(differential cache vs no cache) + enumeration of crash "
              "points and two-writer interleavings via file-system "
              "interposition in child processes",
)
