"""C14 - Rendering is deterministic, side-effect free on its inputs, and
thread-safe.

Parts / stages
  determinism (part)  generated templates (TAL + TALES + attribute
        dictionaries + probes of repeat state) x bindings: the same render
        call gives the identical outcome (text / exception class, call log)
        on one instance twice, on a second separately compiled instance, and
        - inside a *sequence* of render calls with different arguments on one
        instance - in every position of the sequence (call k == what a fresh
        instance returns for the same arguments).  Mutable argument objects
        (lists, dicts, nested) are deep-copied before and compared after.
  hashseed (stage)    the cases are rendered in child processes started with
        two different PYTHONHASHSEED values; outputs must be identical to
        each other and to this process.
  threads (stage)     free-running: 2..8 threads x shared PageTemplate,
        PageTemplateFile (first, lazily compiling call) and shared
        PageTemplateLoader at sys.setswitchinterval(1e-6); each thread's
        results == single-threaded reference.
  schedules (stage)   harness-owned schedules (vlib/sched.py): every line of
        BaseTemplate.cook, BaseTemplateFile.cook_check, TemplateLoader.load,
        Macros.__getitem__/names and PageTemplate.include is a yield point;
        ALL single-preemption schedules of 2 threads (and sampled /
        all double-preemption ones) on the lazily compiling first render of
        a shared file template, on macro access and on a shared loader.
"""
from __future__ import annotations

import copy
import json
import multiprocessing
import os
import shutil
import subprocess
import sys
import tempfile
import threading

from hypothesis import strategies as st

from vlib import exprs, tmodel, tstrat, values
from vlib.cham import run
from vlib.harness import Check, HarnessError, Mismatch, Part, Stage, NCPU, ROOT

SRC = os.environ.get("VERIF_SRC", "/repo/src")


def render_once(t, bindings):
    log = []
    env = values.env(bindings)
    rec, boom = exprs.make_callables(log)
    env["rec"], env["boom"] = rec, boom
    # (value objects define a structural repr; identity-based __eq__ of
    # plain objects would make a deep copy look "different")
    snapshot = {k: repr(v) for k, v in env.items()
                if isinstance(v, (list, dict))}
    o = run(t.render, **env)
    changed = [k for k, v in snapshot.items() if repr(env[k]) != v]
    res = ("out", o.value) if o.ok else ("exc", o.exc_name)
    return res, log, changed


@st.composite
def det_cases(draw):
    base = draw(tstrat.templates(depth=2, tales=True, max_elems=8,
                                 repeat_probes=True, dict_attrs=True))
    if draw(st.booleans()):
        # the state of every loop name as seen before any loop has run in
        # this rendering: must not depend on earlier renderings
        parts = [["lit", "("]]
        for v in tstrat.LOOPVARS:
            for a in ("length", "index"):
                parts.append(["interp", ["pipe", [
                    ["attr", ["attr", ["var", "repeat"], v], a],
                    ["const", "'norep'"]]]])
                parts.append(["lit", ","])
        parts.append(["lit", ")"])
        base["nodes"].insert(0, ["elem", {
            "name": "pre", "attrs": [], "stmts": {}, "order": [0],
            "close_space": "", "children": [["text", parts]]}])
    seq = [base["bindings"]]
    for _ in range(draw(st.integers(1, 3))):
        seq.append(draw(tstrat.bindings_strategy()))
    # the first arguments once more at the end: after other calls the same
    # arguments must still give the same result
    seq.append(base["bindings"])
    return {"nodes": base["nodes"], "sequence": seq}


class Determinism(Part):
    name = "determinism"
    examples = {"quick": 450, "thorough": 20000}

    def strategy(self, tier):
        return det_cases()

    def source(self, case):
        return tmodel.serialize(case["nodes"]).text()

    def nontrivial(self, case):
        src = self.source(case)
        return len(case["sequence"]) >= 3 and (
            "global " in src or "tal:repeat" in src)

    def labels(self, case):
        src = self.source(case)
        if "global " in src:
            yield "global_define"
        if "tal:repeat" in src:
            yield "repeat"
        if "repeat." in src:
            yield "repeat_probe"

    def sample(self, case):
        return {"source": self.source(case), "calls": len(case["sequence"])}

    def oracle(self, case):
        from chameleon import PageTemplate
        src = self.source(case)
        o = run(PageTemplate, src)
        if not o.ok:
            return Mismatch("determinism:compile raises " + o.exc_name,
                            {"source": src, "outcome": o.brief()})
        shared = o.value
        for k, b in enumerate(case["sequence"]):
            # (the shared instance first: what it sees is then preceded by
            # a rendering with OTHER arguments, the fresh instance's by one
            # with the same arguments)
            got, glog, ch1 = render_once(shared, b)
            fresh = PageTemplate(src)
            want, wlog, ch0 = render_once(fresh, b)
            again, alog, ch2 = render_once(shared, b)
            detail = {"source": src, "call": k, "bindings": b,
                      "sequence": case["sequence"], "fresh": want,
                      "shared": got, "shared_again": again}
            if ch0 or ch1 or ch2:
                return Mismatch("determinism:argument object modified",
                                dict(detail, changed=ch0 + ch1 + ch2))
            if got != want or glog != wlog:
                return Mismatch("determinism:call %s differs from a fresh "
                                "instance" % ("k>0" if k else "0"), detail)
            if again != got or alog != glog:
                return Mismatch("determinism:repeated call differs", detail)
        return None


class EngineObjects(Part):
    """Objects that the engine hands to expressions (attrs, repeat, default,
    template, macros, nothing, modules ...) and that a template may mutate or
    keep: whatever one rendering does with them must not be visible to the
    next rendering of the same or of another instance."""
    name = "engineobjects"
    examples = {"quick": 120, "thorough": 2000}

    MUTATIONS = {
        # name -> (expression that mutates / records, probe expression)
        "attrs_setitem": ("attrs.__setitem__('n', attrs.get('n', 0) + 1)",
                          "attrs.get('n')"),
        "attrs_setdefault_list": ("attrs.setdefault('l', []).append(1)",
                                  "len(attrs.get('l', ()))"),
        "attrs_pop": ("attrs.pop('class', None)", "sorted(attrs)"),
        "attrs_update": ("attrs.update(extra=1)", "sorted(attrs)"),
        "repeat_store": ("repeat.__setitem__('zz', 5)",
                         "repeat['zz'] | 'none'"),
        "control": ("None", "sorted(attrs)"),
        # containers that the TEMPLATE creates with a literal and then
        # fills: every rendering (and every repetition) starts from the
        # literal
        "literal_list": ("acc.append(len(acc))", "[]"),
        "literal_dict": ("acc.setdefault('k', []).append(1)", "{}"),
        "literal_set": ("acc.add(len(acc))", "{0}"),
        "literal_nested": ("acc[0].append(1)", "[[], 1]"),
        "literal_filled": ("acc.extend('ab')", "['x']"),
        "literal_tuple_of_lists": ("acc[1].append(2)", "([], [])"),
    }

    def strategy(self, tier):
        return st.fixed_dictionaries({
            "kind": st.sampled_from(sorted(self.MUTATIONS)),
            "static": st.sampled_from(["", ' class="c"',
                                       ' class="c" id="i"']),
            "renders": st.integers(2, 4),
            "fresh_between": st.booleans(),
        })

    def source(self, case):
        mut, probe = self.MUTATIONS[case["kind"]]
        if case["kind"].startswith("literal"):
            # (also inside a loop: every repetition defines it anew)
            return ('<i%s tal:repeat="r (1, 2)"><b tal:define="acc %s; '
                    'dummy %s">${acc}</b></i>' % (case["static"], probe,
                                                  mut))
        # the probe stands BEFORE the mutation: the first rendering shows the
        # pristine state, every later one must show the same
        return ('<i%s tal:define="before %s; dummy %s">${before}</i>'
                % (case["static"], probe, mut))

    def nontrivial(self, case):
        return case["kind"] != "control"

    def labels(self, case):
        yield case["kind"].split("_")[0]

    def sample(self, case):
        return {"source": self.source(case)}

    def oracle(self, case):
        from chameleon import PageTemplate
        src = self.source(case)
        o = run(PageTemplate, src)
        if not o.ok:
            raise HarnessError("scaffold does not compile: %s" % o.brief())
        t = o.value
        outs = []
        for k in range(case["renders"]):
            r = run(t.render)
            outs.append(("out", r.value) if r.ok else ("exc", r.exc_name))
            if case["fresh_between"]:
                run(PageTemplate(src).render)
        if len(set(outs)) != 1:
            b = "engineobjects:K14" if case["kind"].startswith("attrs") \
                else "engineobjects:renderings differ"
            return Mismatch(b, {"source": src, "outputs": outs})
        return None

    def known(self, case, mismatch):
        return "K14" if mismatch.bucket == "engineobjects:K14" else None


class Isolation(Part):
    """Separately compiled instances of the same source and configuration
    render identically - whatever OTHER templates were compiled and rendered
    in the process in between (with other options, extra builtins, global
    definitions, code blocks, macros named like this template's variables,
    failing templates, templates that do not compile)."""
    name = "isolation"
    examples = {"quick": 250, "thorough": 8000}

    KINDS = ["extra_builtins", "extra_builtins_callable", "global_define",
             "code_block", "code_def", "macro_named", "repeat_named",
             "boolean_attribute", "render_fails", "compile_fails",
             "text_template", "options", "import_expr", "subclass_builtins"]

    def strategy(self, tier):
        names = ["s0", "s1", "s2", "q0", "q1", "d0", "id", "it0", "o0",
                 "rec", "boom", "i0", "i1", "j"]
        return st.fixed_dictionaries({
            "base": tstrat.templates(depth=2, tales=True, max_elems=6,
                                     repeat_probes=True, dict_attrs=True),
            "between": st.lists(st.tuples(st.sampled_from(self.KINDS),
                                          st.sampled_from(names)),
                                min_size=1, max_size=4),
        })

    def source(self, case):
        return tmodel.serialize(case["base"]["nodes"]).text()

    def nontrivial(self, case):
        return True

    def labels(self, case):
        for k, _ in case["between"]:
            yield k

    def sample(self, case):
        return {"source": self.source(case), "between": case["between"]}

    @staticmethod
    def interfere(kind, name):
        """Compile (and render) some other template; its outcome does not
        matter."""
        from chameleon import PageTemplate, PageTextTemplate
        n = name
        if kind == "extra_builtins":
            t = lambda: PageTemplate("<p>${%s}</p>" % n,
                                     extra_builtins={n: "EB"})
        elif kind == "extra_builtins_callable":
            t = lambda: PageTemplate("<p>${%s('a', 1)}</p>" % n,
                                     extra_builtins={n: lambda *a: "EBC"})
        elif kind == "global_define":
            t = lambda: PageTemplate(
                "<p tal:define=\"global %s 'G'\">${%s}</p>" % (n, n))
        elif kind == "code_block":
            t = lambda: PageTemplate("<?python %s = 'CB' ?><p>${%s}</p>"
                                     % (n, n))
        elif kind == "code_def":
            t = lambda: PageTemplate(
                "<?python\ndef %s(*a):\n    return 'CD'\n?><p>${%s()}</p>"
                % (n, n))
        elif kind == "macro_named":
            t = lambda: PageTemplate(
                '<p metal:define-macro="%s">m</p>'
                '<p metal:use-macro="macros[\'%s\']"/>' % (n, n))
        elif kind == "repeat_named":
            t = lambda: PageTemplate(
                '<p tal:repeat="%s (1, 2)">${%s}${repeat.%s.index}</p>'
                % (n, n, n))
        elif kind == "boolean_attribute":
            t = lambda: PageTemplate('<p %s="${1}" class="x">b</p>' % n,
                                     boolean_attributes={n, "class"})
        elif kind == "render_fails":
            t = lambda: PageTemplate(
                "<p tal:define=\"global %s 1\">${%s.nope}</p>" % (n, n))
        elif kind == "compile_fails":
            t = lambda: PageTemplate("<p tal:define=\"%s 1 +\">x</p>" % n)
        elif kind == "text_template":
            t = lambda: PageTextTemplate("${%s | 'T'} $%s" % (n, n))
        elif kind == "options":
            t = lambda: PageTemplate(
                '<p class=" a " tal:attributes="id %s|None">o</p>' % n,
                trim_attribute_space=True, literal_false=False,
                enable_data_attributes=True, restricted_namespace=False,
                implicit_i18n_translate=True,
                implicit_i18n_attributes={"class"}, strict=False)
        elif kind == "import_expr":
            t = lambda: PageTemplate(
                "<p tal:define=\"%s import: os.path\">${%s.sep}</p>" % (n, n))
        else:
            class Sub(PageTemplate):
                extra_builtins = {n: "SB"}
            t = lambda: Sub("<p>${%s}</p>" % n)
        o = run(t)
        if o.ok:
            run(o.value.render)

    def oracle(self, case):
        from chameleon import PageTemplate
        src = self.source(case)
        b = case["base"]["bindings"]
        o = run(PageTemplate, src)
        if not o.ok:
            return Mismatch("isolation:compile raises " + o.exc_name,
                            {"source": src, "outcome": o.brief()})
        first = o.value
        want, wlog, _ = render_once(first, b)
        for kind, name in case["between"]:
            self.interfere(kind, name)
        o = run(PageTemplate, src)
        detail = {"source": src, "bindings": b, "between": case["between"],
                  "before": want}
        if not o.ok:
            return Mismatch("isolation:second compilation raises " +
                            o.exc_name, dict(detail, outcome=o.brief()))
        got, glog, _ = render_once(o.value, b)
        if got != want or glog != wlog:
            return Mismatch("isolation:instance compiled after other "
                            "templates renders differently",
                            dict(detail, after=got))
        again, alog, _ = render_once(first, b)
        if again != want or alog != wlog:
            return Mismatch("isolation:earlier instance renders differently "
                            "after other templates were compiled",
                            dict(detail, after=again))
        return None


class RenderArgs(Part):
    """What a render call is given besides variables - the translation
    function, the target language, an encoding - holds for that call only:
    every call on a shared instance equals the same call on a fresh one."""
    name = "renderargs"
    examples = {"quick": 150, "thorough": 4000}

    SRC = ('<div><p i18n:translate="">Hello <b i18n:name="n">${x}</b>!</p>'
           '<i title="Title" i18n:attributes="title">${b}</i>${m}'
           '<u tal:content="m">c</u></div>')

    def strategy(self, tier):
        call = st.fixed_dictionaries({
            "translate": st.sampled_from([None, None, "A", "B", "none"]),
            "target_language": st.sampled_from([None, None, "de", "fr"]),
            "encoding": st.sampled_from([None, None, None, "utf-8",
                                         "latin-1"]),
            "x": st.sampled_from(["1", "é", "<x>"]),
        })
        return st.fixed_dictionaries({
            "config_encoding": st.sampled_from([None, None, "utf-8",
                                                "latin-1"]),
            "config_translate": st.sampled_from([None, None, "C"]),
            "calls": st.lists(call, min_size=2, max_size=5),
        })

    def nontrivial(self, case):
        return len({(c["translate"], c["target_language"], c["encoding"])
                    for c in case["calls"]}) >= 2

    def labels(self, case):
        if case["config_encoding"] or any(c["encoding"]
                                          for c in case["calls"]):
            yield "encoding"
        if len({c["translate"] for c in case["calls"]}) >= 2:
            yield "translate_changes"

    @staticmethod
    def tr(tag):
        def translate(msgid, domain=None, mapping=None, context=None,
                      target_language=None, default=None):
            text = default if isinstance(default, str) else str(
                getattr(msgid, "msgid", msgid))
            for k, v in (mapping or {}).items():
                text = text.replace("${%s}" % k, str(v))
            return "%s[%s|%s]" % (tag, target_language, text)
        return translate

    def make(self, case):
        from chameleon import PageTemplate
        cfg = {}
        if case["config_encoding"]:
            cfg["encoding"] = case["config_encoding"]
        if case["config_translate"]:
            cfg["translate"] = self.tr(case["config_translate"])
        return PageTemplate(self.SRC, **cfg)

    def call(self, t, c):
        kw = {"x": c["x"], "b": "café".encode(
            c["encoding"] or "utf-8"), "m": values.Msg("mid")}
        if c["translate"] == "none":
            kw["translate"] = None
        elif c["translate"]:
            kw["translate"] = self.tr(c["translate"])
        if c["target_language"]:
            kw["target_language"] = c["target_language"]
        if c["encoding"]:
            kw["encoding"] = c["encoding"]
        o = run(t.render, **kw)
        return ("out", o.value) if o.ok else ("exc", o.exc_name)

    def oracle(self, case):
        o = run(self.make, case)
        if not o.ok:
            raise HarnessError("scaffold does not compile: %s" % o.brief())
        shared = o.value
        for k, c in enumerate(case["calls"]):
            got = self.call(shared, c)
            want = self.call(self.make(case), c)
            if got != want:
                return Mismatch("renderargs:call differs from a fresh "
                                "instance", {"config": {
                                    k2: case[k2] for k2 in (
                                        "config_encoding",
                                        "config_translate")},
                                    "calls": case["calls"], "call": k,
                                    "shared": repr(got),
                                    "fresh": repr(want)})
        return None


# ---------------------------------------------------------------------------

CHILD = r"""
import json, sys
sys.path[:0] = %r
from vlib import tmodel, values, exprs
from chameleon import PageTemplate
cases = json.load(open(sys.argv[1]))
out = []
def observing_translate(msgid, mapping=None, default=None, **kw):
    # shows everything it is given, in the order in which it is given
    return "{%%s|%%s|%%s}" %% (msgid, list((mapping or {}).items()), default)
for c in cases:
    try:
        cfg = {"translate": observing_translate} if c.get("i18n") else {}
        t = PageTemplate(c["source"], **cfg)
        env = values.env(c["bindings"])
        log = []
        env["rec"], env["boom"] = exprs.make_callables(log)
        try:
            out.append(["out", t.render(**env), log])
        except Exception as e:
            out.append(["exc", type(e).__name__, log])
    except Exception as e:
        out.append(["compile-exc", type(e).__name__, []])
print("RESULT " + json.dumps(out))
"""


def render_in_child(cases, hashseed):
    fd, path = tempfile.mkstemp(prefix="c14-", suffix=".json")
    with os.fdopen(fd, "w") as f:
        json.dump(cases, f)
    env = dict(os.environ)
    env["PYTHONHASHSEED"] = str(hashseed)
    try:
        p = subprocess.run(
            [sys.executable, "-c", CHILD % ([SRC, ROOT, os.path.join(
                ROOT, ".deps")],), path],
            env=env, capture_output=True, text=True, timeout=600)
    finally:
        os.unlink(path)
    for line in p.stdout.splitlines():
        if line.startswith("RESULT "):
            return json.loads(line[7:])
    raise HarnessError("child failed: %s" % p.stderr[-800:])


def _hash_job(args):
    cases, seeds = args
    try:
        return [render_in_child(cases, s) for s in seeds], None
    except HarnessError as e:
        return None, str(e)


class HashSeed(Stage):
    name = "hashseed"

    def collect(self, n, seed):
        import hypothesis
        from hypothesis import HealthCheck, Phase, given, settings
        cases = []

        @settings(max_examples=n, database=None, deadline=None,
                  phases=[Phase.generate],
                  suppress_health_check=list(HealthCheck))
        @hypothesis.seed(seed)
        @given(tstrat.templates(depth=2, tales=True, max_elems=8,
                                dict_attrs=True))
        def go(c):
            cases.append({"source": tmodel.serialize(c["nodes"]).text(),
                          "bindings": c["bindings"]})
        go()
        # translations with several named parts: the mapping handed to the
        # translation function must not depend on the hashing of strings
        import random
        rnd = random.Random(seed)
        pool = ["zeta", "alpha", "mid", "n1", "name", "who", "count", "x",
                "first_name", "b", "day", "month"]
        for _ in range(max(8, n // 16)):
            names = rnd.sample(pool, rnd.randint(2, 5))
            inner = " and ".join('<b i18n:name="%s">%s</b>' % (nm, nm.upper())
                                 for nm in names)
            cases.append({"source": '<p i18n:translate="">Dear %s.</p>'
                          % inner, "bindings": {}, "i18n": True})
        # attributes that exist only because i18n:attributes names them,
        # next to static and dynamic ones: their order in the start tag
        attrs = ["title", "alt", "value", "placeholder", "summary", "abbr",
                 "label", "aria-label", "x", "longdesc"]
        for _ in range(max(8, n // 16)):
            named = rnd.sample(attrs, rnd.randint(2, 6))
            static = rnd.sample(named, rnd.randint(0, 2))
            dyn = [a for a in rnd.sample(named, rnd.randint(0, 2))
                   if a not in static]
            spec = "; ".join(a if rnd.random() < .6 else "%s id-%s" % (a, a)
                             for a in named)
            cases.append({"source": '<input%s%s i18n:attributes="%s" />' % (
                "".join(' %s="S %s"' % (a, a) for a in static),
                ' tal:attributes="%s"' % "; ".join(
                    "%s 'D %s'" % (a, a) for a in dyn) if dyn else "",
                spec), "bindings": {}, "i18n": True})
        # the i18n grammar of C10 (domains, names, attributes, messages)
        from checks import c10
        i18n_cases = []

        @settings(max_examples=max(20, n // 4), database=None, deadline=None,
                  phases=[Phase.generate],
                  suppress_health_check=list(HealthCheck))
        @hypothesis.seed(seed + 7)
        @given(c10.cases())
        def go2(c):
            b = {k: (["none"] if v is None else ["str", v])
                 for k, v in c["bindings"].items()}
            b["m0"] = ["msg", "m-zero"]
            b["vn"] = ["none"]
            i18n_cases.append({"source": c10.source(c["nodes"]),
                               "bindings": b, "i18n": True})
        go2()
        return cases + i18n_cases

    def oracle(self, case):
        a = render_in_child([case], 1)[0]
        b = render_in_child([case], 4242)[0]
        if a != b:
            return Mismatch("hashseed:differs between processes",
                            {"case": case, "seed1": a, "seed4242": b})
        return None

    def run(self, tier, seed, check):
        n = 320 if tier == "quick" else 8000
        cases = self.collect(n, seed)
        size = max(1, len(cases) // NCPU)
        chunks = [cases[i:i + size] for i in range(0, len(cases), size)]
        ctx = multiprocessing.get_context("fork")
        with ctx.Pool(NCPU) as pool:
            res = pool.map(_hash_job, [(c, (1, 4242)) for c in chunks])
        failures, harness = [], []
        from chameleon import PageTemplate
        for chunk, (outs, err) in zip(chunks, res):
            if err:
                harness.append(err)
                continue
            for case, a, b in zip(chunk, outs[0], outs[1]):
                if a != b:
                    failures.append((case, Mismatch(
                        "hashseed:differs between processes",
                        {"case": case, "seed1": a, "seed4242": b})))
        return {
            "evaluations": len(cases) * 2,
            "nontrivial_ids": [str(i) for i, c in enumerate(cases)
                               if "tal:attributes" in c["source"] or
                               c.get("i18n")],
            "failures": failures[:3], "harness": harness[:2],
            "samples": cases[:1],
            "info": {"cases": len(cases), "hash_seeds": [1, 4242]},
        }


# ---------------------------------------------------------------------------

FILE_BODY = ('<html><b metal:define-macro="m">M${x}</b>'
             '<ul><li tal:repeat="i range(3)" tal:content="i + x">i</li></ul>'
             '<p tal:define="global g x * 2">${g}</p></html>')
USER_BODY = '<div metal:use-macro="load: page.pt">u</div>'


# templates compiled side by side (each thread renders another one): one
# with translation blocks / named parts / a slot filler, one plain
I18N_BODY = ('<div><p i18n:translate="">Hello <b i18n:name="who">W${x}</b>, '
             'you have <i i18n:name="n">${x + 1}</i> items.</p>'
             '<x metal:use-macro="load: page.pt">'
             '<y metal:fill-slot="none">f</y></x>'
             '<span i18n:translate="">bye <u i18n:name="z">z</u></span>'
             "</div>")
PLAIN_BODY = "<div>" + "".join(
    "<p class='c%d'>text %d ${x}</p>\n" % (k, k) for k in range(12)) + \
    "</div>"
SIDE_BODIES = {"i18n.pt": I18N_BODY, "plain.pt": PLAIN_BODY}


_SIDE = {}


def expected_side(name, x):
    if (name, x) not in _SIDE:
        _SIDE[name, x] = _expected_side(name, x)
    return _SIDE[name, x]


def _expected_side(name, x):
    from chameleon import PageTemplateFile
    d = scratch_tree()
    try:
        return PageTemplateFile(os.path.join(d, name)).render(x=x)
    finally:
        shutil.rmtree(d, ignore_errors=True)


def expected_file(x):
    from chameleon import PageTemplate
    return PageTemplate(FILE_BODY).render(x=x)


def scratch_tree():
    d = tempfile.mkdtemp(prefix="c14-")
    with open(os.path.join(d, "page.pt"), "w") as f:
        f.write(FILE_BODY)
    with open(os.path.join(d, "user.pt"), "w") as f:
        f.write(USER_BODY)
    for name, body in SIDE_BODIES.items():
        with open(os.path.join(d, name), "w") as f:
            f.write(body)
        for k in range(4):
            with open(os.path.join(d, "%d-%s" % (k, name)), "w") as f:
                f.write(body)
    return d


def scenario(kind, d):
    """Returns (list of thunks, expected results) for 2..n workers sharing
    one object."""
    from chameleon import PageTemplateFile, PageTemplateLoader, PageTemplate
    if kind == "file_first_render":
        t = PageTemplateFile(os.path.join(d, "page.pt"))
        return lambda i: (lambda: t.render(x=i)), expected_file
    if kind == "file_auto_reload":
        t = PageTemplateFile(os.path.join(d, "page.pt"), auto_reload=True)
        return lambda i: (lambda: t.render(x=i)), expected_file
    if kind == "macro_access":
        t = PageTemplateFile(os.path.join(d, "page.pt"))
        user = PageTemplate('<i metal:use-macro="t.macros[\'m\']"/>')
        return (lambda i: (lambda: user.render(t=t, x=i)),
                lambda i: "<b>M%d</b>" % i)
    if kind == "macro_names":
        t = PageTemplateFile(os.path.join(d, "page.pt"))
        return (lambda i: (lambda: sorted(t.macros.names)),
                lambda i: ["m"])
    if kind == "loader":
        loader = PageTemplateLoader(d)
        return (lambda i: (lambda: loader.load("page.pt").render(x=i)),
                expected_file)
    if kind == "loader_user":
        loader = PageTemplateLoader(d)
        return (lambda i: (lambda: loader.load("user.pt").render(x=i)),
                expected_file)
    if kind == "string_template":
        t = PageTemplate(FILE_BODY)
        return lambda i: (lambda: t.render(x=i)), expected_file
    if kind == "side_by_side":
        # a shared loader; every thread renders ANOTHER, not yet compiled
        # template (the compilations run side by side)
        loader = PageTemplateLoader(d)
        names = ["i18n.pt", "plain.pt", "i18n.pt"]
        exp = {n: expected_side(n, 7) for n in set(names)}
        return (lambda i: (lambda: loader.load(
            names[i % 3]).render(x=7)), lambda i: exp[names[i % 3]])
    if kind == "side_by_side_many":
        loader = PageTemplateLoader(d)
        names = ["%d-%s" % (k, n) for k in range(4)
                 for n in ("i18n.pt", "plain.pt")]
        exp = {n: expected_side(n.split("-", 1)[1], 7) for n in names}

        def work(i):
            order = names[i % len(names):] + names[:i % len(names)]
            return lambda: [loader.load(n).render(x=7) for n in order]
        return work, lambda i: [exp[n] for n in (
            names[i % len(names):] + names[:i % len(names)])]
    raise ValueError(kind)


SCENARIOS = ["file_first_render", "file_auto_reload", "macro_access",
             "macro_names", "loader", "loader_user", "string_template",
             "side_by_side", "side_by_side_many"]


def _free_job(args):
    kind, nthreads, rounds = args
    d = scratch_tree()
    old = sys.getswitchinterval()
    sys.setswitchinterval(1e-6)
    bad = []
    try:
        for r in range(rounds):
            mk, exp = scenario(kind, d)
            results = [None] * nthreads
            errors = [None] * nthreads
            barrier = threading.Barrier(nthreads)

            def work(i):
                try:
                    fn = mk(i)
                    barrier.wait()
                    out = []
                    for _ in range(3):
                        out.append(fn())
                    results[i] = out
                    if kind == "side_by_side_many":
                        results[i] = out[:1] * 3 if out[0] == out[1] == \
                            out[2] else out
                except BaseException as e:  # noqa: BLE001
                    errors[i] = "%s: %s" % (type(e).__name__, str(e)[:200])
            ts = [threading.Thread(target=work, args=(i,))
                  for i in range(nthreads)]
            for t in ts:
                t.start()
            for t in ts:
                t.join(60)
            for i in range(nthreads):
                if errors[i]:
                    bad.append({"scenario": kind, "threads": nthreads,
                                "thread": i, "error": errors[i]})
                elif results[i] != [exp(i)] * 3:
                    bad.append({"scenario": kind, "threads": nthreads,
                                "thread": i, "got": results[i],
                                "expected": exp(i)})
            if bad:
                break
    finally:
        sys.setswitchinterval(old)
        shutil.rmtree(d, ignore_errors=True)
    return args, bad


class FreeThreads(Stage):
    name = "threads"

    def oracle(self, case):
        a, bad = _free_job((case["scenario"], case["threads"],
                            case.get("rounds", 30)))
        if bad:
            return Mismatch("threads:" + case["scenario"], bad[0])
        return None

    def run(self, tier, seed, check):
        rounds = 15 if tier == "quick" else 300
        jobs = [(k, n, rounds) for k in SCENARIOS for n in (2, 4, 8)]
        ctx = multiprocessing.get_context("fork")
        with ctx.Pool(min(NCPU, 6)) as pool:
            res = pool.map(_free_job, jobs, chunksize=1)
        failures = []
        for (kind, n, r), bad in res:
            if bad:
                failures.append(({"scenario": kind, "threads": n,
                                  "rounds": r}, Mismatch(
                    "threads:" + kind, bad[0])))
        return {
            "evaluations": sum(n * r * 3 for k, n, r in jobs),
            "nontrivial_ids": ["%s-%d" % (k, n) for k, n, r in jobs],
            "failures": failures[:3],
            "samples": [{"scenario": "file_first_render", "threads": 8,
                         "body": FILE_BODY}],
            "info": {"scenarios": SCENARIOS, "rounds": rounds,
                     "switchinterval": 1e-6},
        }


# code generation: every line of these methods (wherever the class that
# holds them is defined) is a yield point in the side-by-side scenario
CODEGEN_YIELDS = (("compiler.py", "visit_TranslationContext"),
                  ("compiler.py", "visit_Translate"),
                  ("compiler.py", "visit_UseExternalMacro"),
                  ("compiler.py", "visit_FillSlot"))


def yield_functions():
    from chameleon.loader import TemplateLoader
    from chameleon.template import BaseTemplate, BaseTemplateFile
    from chameleon.zpt.template import Macros, PageTemplate
    fns = [BaseTemplate.cook, BaseTemplateFile.cook_check,
           TemplateLoader.load, Macros.__getitem__, Macros.names.fget,
           PageTemplate.include, BaseTemplateFile.read]
    inner = getattr(TemplateLoader.load, "__closure__", None)
    if inner:
        for cell in inner:
            if callable(cell.cell_contents):
                fns.append(cell.cell_contents)
    return fns


def run_schedule(kind, schedule, nthreads=2):
    """Returns (problem | None, steps per worker, trace)."""
    from vlib.sched import Blocked, Scheduler
    d = scratch_tree()
    try:
        mk, exp = scenario(kind, d)
        names = CODEGEN_YIELDS if kind == "side_by_side" else ()
        s = Scheduler(yield_functions(), names=names)
        try:
            workers, trace = s.run([mk(i) for i in range(nthreads)],
                                   schedule)
        except Blocked as e:
            return {"blocked": str(e)}, None, None
        for w in workers:
            if w.exc is not None:
                return ({"thread": w.index, "error": "%s: %s" % (
                    type(w.exc).__name__, str(w.exc)[:200])},
                    [x.steps for x in workers], trace)
            if w.result != exp(w.index):
                return ({"thread": w.index, "got": w.result,
                         "expected": exp(w.index)},
                        [x.steps for x in workers], trace)
        return None, [x.steps for x in workers], trace
    finally:
        shutil.rmtree(d, ignore_errors=True)


def _sched_job(args):
    kind, schedule, n = args
    try:
        problem, steps, trace = run_schedule(kind, schedule, n)
        return args, problem, steps, None
    except Exception as e:  # noqa: BLE001
        return args, None, None, "%s: %s" % (type(e).__name__, e)


class Schedules(Stage):
    name = "schedules"

    def oracle(self, case):
        a, problem, steps, err = _sched_job((case["scenario"],
                                             case["schedule"],
                                             case.get("threads", 2)))
        if err:
            raise HarnessError(err)
        if problem:
            return Mismatch("schedules:" + case["scenario"], dict(
                problem, schedule=case["schedule"]))
        return None

    def run(self, tier, seed, check):
        import random
        rnd = random.Random(seed)
        kinds = ["file_first_render", "file_auto_reload", "macro_access",
                 "macro_names", "loader", "loader_user", "side_by_side"]
        jobs = []
        info = {}
        for kind in kinds:
            # steps of one worker running alone
            problem, steps, trace = run_schedule(kind, [0] * 10000)
            if problem or not steps:
                raise HarnessError("calibration of %s failed: %r" % (
                    kind, problem))
            n0 = steps[0]
            info[kind] = {"yield_points_first_worker": n0}
            if n0 < 3:
                raise HarnessError("too few yield points in %s" % kind)
            # single preemption: A runs k steps, then B to the end, then A
            single = [[a] * k + [1 - a] * 400 for a in (0, 1)
                      for k in range(0, n0 + 1)]
            double = [[a] * k + [1 - a] * j + [a] * 400 for a in (0, 1)
                      for k in range(0, n0 + 1) for j in range(1, n0 + 1)]
            if tier == "quick":
                rnd.shuffle(double)
                double = double[:30]
                if kind == "side_by_side":
                    # (many yield points: every other one, alternating
                    # with the seed)
                    single = single[seed % 2::2]
                    double = double[:10]
            drawn = [[rnd.randint(0, 2) for _ in range(3 * n0)]
                     for _ in range(10 if tier == "quick" else 300)]
            jobs += [(kind, s, 2) for s in single + double]
            jobs += [(kind, s, 3) for s in drawn]
            info[kind].update(single=len(single), double=len(double),
                              drawn3=len(drawn))
        ctx = multiprocessing.get_context("fork")
        with ctx.Pool(NCPU) as pool:
            res = pool.map(_sched_job, jobs, chunksize=8)
        failures, harness = [], []
        seen = set()
        for (kind, sch, n), problem, steps, err in res:
            if err:
                harness.append(err)
            elif problem and "blocked" in problem:
                harness.append(str(problem))
            elif problem and kind not in seen:
                seen.add(kind)
                failures.append(({"scenario": kind, "schedule": sch,
                                  "threads": n}, Mismatch(
                    "schedules:" + kind, dict(problem, schedule=sch[:60]))))
        return {
            "evaluations": len(jobs),
            "nontrivial_ids": ["%s-%d" % (j[0], i) for i, j in
                               enumerate(jobs)],
            "failures": failures[:4], "harness": harness[:3],
            "samples": [{"scenario": jobs[0][0], "schedule": jobs[0][1][:20]}],
            "info": info,
        }


IMPORT_TEMPLATES = {
    # (template, expected text) for a package P with modules sub, other and
    # a deeper package deep.leaf that nothing imports by itself
    "pkg": ('<p tal:define="m import: %(P)s">${m.__name__}</p>',
            "<p>%(P)s</p>"),
    "sub": ('<p tal:define="m import: %(P)s.sub">${m.__name__}</p>',
            "<p>%(P)s.sub</p>"),
    "value": ("<p>${import: %(P)s.sub.VALUE}</p>", "<p>S</p>"),
    "other": ('<p tal:content="import: %(P)s.other.VALUE"/>', "<p>O</p>"),
    "deep": ("<p>${import: %(P)s.deep}</p>", None),
    "leaf": ("<p>${import: %(P)s.deep.leaf.VALUE}</p>", "<p>L</p>"),
}


class ImportOrder(Part):
    """import: expressions give the same value whatever other import:
    expressions (of a parent package, a sibling, a deeper module) were
    evaluated before in the process - the process-wide module cache is
    transparent.  Every case gets a package of its own that nothing has
    imported yet."""
    name = "importorder"
    examples = {"quick": 200, "thorough": 5000}

    def strategy(self, tier):
        return st.lists(st.sampled_from(sorted(IMPORT_TEMPLATES)),
                        min_size=2, max_size=6).map(
                            lambda seq: {"sequence": seq})

    def nontrivial(self, case):
        return len(set(case["sequence"])) >= 2

    def labels(self, case):
        seq = case["sequence"]
        if "pkg" in seq and any(k in seq[seq.index("pkg"):]
                                for k in ("sub", "value", "other")):
            yield "parent_before_child"
        if "deep" in seq and "leaf" in seq[seq.index("deep"):]:
            yield "deep_parent_before_leaf"

    def setup_shard(self, tier, shard):
        self.tmp = tempfile.mkdtemp(prefix="c14-imp-")
        sys.path.insert(0, self.tmp)
        self.n = 0

    def teardown_shard(self):
        tmp = getattr(self, "tmp", None)
        if tmp:
            if tmp in sys.path:
                sys.path.remove(tmp)
            shutil.rmtree(tmp, ignore_errors=True)

    def oracle(self, case):
        import importlib
        from chameleon import PageTemplate
        if not getattr(self, "tmp", None):
            self.setup_shard(None, 0)
        self.n += 1
        pkg = "c14pkg_%d_%d" % (os.getpid(), self.n)
        root = os.path.join(self.tmp, pkg)
        os.makedirs(os.path.join(root, "deep"))
        for rel, text in (("__init__.py", ""), ("sub.py", "VALUE = 'S'\n"),
                          ("other.py", "VALUE = 'O'\n"),
                          ("deep/__init__.py", ""),
                          ("deep/leaf.py", "VALUE = 'L'\n")):
            with open(os.path.join(root, rel), "w") as f:
                f.write(text)
        importlib.invalidate_caches()
        try:
            for i, kind in enumerate(case["sequence"]):
                tpl, exp = IMPORT_TEMPLATES[kind]
                src = tpl % {"P": pkg}
                o = run(PageTemplate, src)
                if o.ok:
                    o = run(o.value.render)
                got = o.value if o.ok else "exc " + o.exc_name
                if exp is None:
                    ok = o.ok and ("module '%s.deep'" % pkg) in got
                else:
                    ok = got == exp % {"P": pkg}
                if not ok:
                    return Mismatch(
                        "importorder:%s %s" % (kind, "after other imports"
                                                if i else "first"),
                        {"sequence": case["sequence"], "step": i,
                         "source": src.replace(pkg, "P"),
                         "got": got.replace(pkg, "P"),
                         "outcome": None if o.ok else o.brief()})
        finally:
            for name in [m for m in sys.modules if m.split(".")[0] == pkg]:
                del sys.modules[name]
            shutil.rmtree(root, ignore_errors=True)
        return None


REWRITE_SOURCES = [
    '<?xml version="1.0"?>\n<a><input checked="${flag}" selected="${not flag}"/>\r\n</a>',
    '<a><input checked="${flag}" selected="${not flag}"/>\r\n</a>',
    '<html><head><meta http-equiv="Content-Type" content="text/html; '
    'charset=utf-8"/></head><input checked="${flag}"/>\r\n</html>',
    '<a tal:attributes="disabled flag">x\ry</a>',
    '<?xml version="1.0" encoding="utf-8"?><a tal:attributes="disabled flag">x\r\ny</a>',
    "<p>${flag}</p>",
    '<div tal:define="global g 1">${g}</div>',
]


class Rewrite(Part):
    """An instance that is given a new source (write()) renders it exactly
    like an instance compiled from that source right away: nothing of the
    earlier source - its document type, its macros, its global names -
    carries over."""
    name = "rewrite"
    examples = {"quick": 150, "thorough": 3000}

    def strategy(self, tier):
        return st.fixed_dictionaries({
            "sources": st.lists(st.integers(0, len(REWRITE_SOURCES) - 1),
                                min_size=2, max_size=4),
            "flag": st.booleans(),
            "render_between": st.booleans(),
            "as_bytes": st.booleans(),
        })

    def nontrivial(self, case):
        return len(set(case["sources"])) >= 2

    def labels(self, case):
        xml = [REWRITE_SOURCES[i].startswith("<?xml")
               for i in case["sources"]]
        if any(a and not b for a, b in zip(xml, xml[1:])):
            yield "xml_then_html"
        if any(b and not a for a, b in zip(xml, xml[1:])):
            yield "html_then_xml"

    def oracle(self, case):
        from chameleon import PageTemplate

        def body(i):
            src = REWRITE_SOURCES[i]
            return src.encode("utf-8") if case["as_bytes"] else src
        o = run(PageTemplate, body(case["sources"][0]))
        if not o.ok:
            return Mismatch("rewrite:compile raises " + o.exc_name,
                            {"case": case, "outcome": o.brief()})
        t = o.value
        for k, i in enumerate(case["sources"]):
            if k:
                o = run(t.write, body(i))
                if not o.ok:
                    return Mismatch("rewrite:write raises " + o.exc_name,
                                    {"case": case, "outcome": o.brief()})
            if k == len(case["sources"]) - 1 or case["render_between"]:
                got = run(t.render, flag=case["flag"])
                ref = run(lambda: PageTemplate(body(i)).render(
                    flag=case["flag"]))
                g = got.value if got.ok else "exc " + got.exc_name
                r = ref.value if ref.ok else "exc " + ref.exc_name
                fresh = PageTemplate(body(i))
                if g != r or t.content_type != fresh.content_type:
                    return Mismatch(
                        "rewrite:instance with a history differs from a "
                        "fresh one", {"case": case, "step": k,
                                      "source": REWRITE_SOURCES[i],
                                      "got": g, "fresh": r,
                                      "content_type": [t.content_type,
                                                       fresh.content_type]})
        return None


CHECK = Check(
    "C14", "exploration",
    rule=("determinism: generated templates x sequences of 3..5 render calls "
          "(other arguments in between, the first arguments again at the "
          "end), each call compared with a fresh instance and repeated; "
          "non-trivial = sequence length >= 3 with a global definition or a "
          "repeat; hashseed: cases rendered in child processes under two "
          "PYTHONHASHSEED values; threads: 7 sharing scenarios x {2,4,8} "
          "free-running threads x rounds; schedules: for 6 scenarios ALL "
          "single-preemption schedules of two threads at line granularity "
          "inside cook / cook_check / read / load / macros / include, sampled "
          "(quick) or all (thorough) double-preemption schedules and drawn "
          "3-thread schedules; every schedule is a distinct non-trivial case"),
    parts=[Determinism(), EngineObjects(), Isolation(), RenderArgs(),
           ImportOrder(), Rewrite()],
    stages=[HashSeed(), FreeThreads(), Schedules()],
    assumptions=[
        "preemption inside C-level calls or between the bytecodes of one "
        "line is only reachable by the free-running stage",
        "auto-reload racing with concurrent renders is not specified and "
        "not generated (files do not change during a scenario)",
    ],
    technique="differential determinism (instances, call sequences, "
              "processes/hash seeds) + free-running threads + enumeration of "
              "harness-owned line-level schedules (sys.settrace scheduler)",
)
