"""C03 - Unmarked markup is reproduced verbatim; tokenising and parsing
lose nothing.

Parts
  tok      Hypothesis text over a markup-heavy alphabet + full Unicode:
           the token stream of ANY string re-joins to the string with
           contiguous positions (iter_xml) / is the single string (iter_text)
  ident    statement-free documents from the markup grammar render to
           themselves (XML mode) / to themselves with CR,CRLF->LF (HTML)
  island   a statement-free document with one dynamic island: everything
           around the island is reproduced byte for byte, and the island's
           own start tag keeps its non-statement attributes verbatim
Stages
  tokex    exhaustive: all strings over a 16-character markup alphabet up
           to length 5 (quick) / 6 (thorough)
  fuzz     atheris campaign on the tokenizer + identity oracle (thorough)
"""
from __future__ import annotations

import itertools
import multiprocessing

from hypothesis import strategies as st

from vlib import markup
from vlib.cham import run
from vlib.fuzz import FuzzStage
from vlib.harness import Check, Mismatch, Part, Stage, NCPU

ALPHABET = '<>/!-?[]="\' a:&;'


def tok_violation(s):
    """Return None or a short description of what is wrong with the token
    stream of ``s``."""
    from chameleon.tokenize import iter_xml
    try:
        toks = list(iter_xml(s))
    except Exception as e:  # noqa: BLE001 - tokenizer must be total
        return "raises " + type(e).__name__
    if "".join(toks) != s:
        return "join differs"
    pos = 0
    for t in toks:
        if t.pos != pos:
            return "position gap"
        if t == "":
            return "empty token"
        if s[t.pos:t.pos + len(t)] != t:
            return "slice differs"
        pos += len(t)
    if pos != len(s):
        return "incomplete"
    return None


class Tok(Part):
    name = "tok"
    examples = {"quick": 6000, "thorough": 200000}

    def strategy(self, tier):
        frag = st.sampled_from([
            "<", ">", "</", "/>", "<!--", "-->", "--", "<![CDATA[", "]]>",
            "<?", "?>", "<!", "<!DOCTYPE", "[", "]", "=", '"', "'", " ",
            "\n", "\t", "\r", "a", "b:c", "x-y", "&amp;", "&", ";", "${", "}",
            "$$", "é", " ", "\x00", "`", "@", ":", "tal:content", "xml",
        ])
        pieces = st.lists(st.one_of(frag, frag, frag, st.text(max_size=3)),
                          max_size=14 if tier == "quick" else 24)
        return pieces.map("".join)

    def nontrivial(self, case):
        return "<" in case and len(case) > 2

    def labels(self, case):
        if "<" in case:
            yield "has_lt"
        if any(ord(c) > 127 for c in case):
            yield "non_ascii"

    def oracle(self, case):
        v = tok_violation(case)
        if v:
            return Mismatch("tok:" + v, {"input": case})
        from chameleon.tokenize import iter_text
        toks = list(iter_text(case))
        if len(toks) != 1 or toks[0] != case or toks[0].pos != 0:
            return Mismatch("tok:iter_text", {"input": case})
        return None


def render_identity(source, **cfg):
    from chameleon import PageTemplate
    o = run(PageTemplate, source, **cfg)
    if not o.ok:
        return "compile", o
    t = o.value
    return "render", run(t.render)


def expected_identity(source):
    if source.startswith("<?xml"):
        return source
    return source.replace("\r\n", "\n").replace("\r", "\n")


class Ident(Part):
    name = "ident"
    examples = {"quick": 4000, "thorough": 100000}
    floors = {"attrs": 0.3, "xml": 0.2, "html": 0.2}

    def strategy(self, tier):
        return markup.documents(max_depth=3 if tier == "quick" else 4,
                                soup=True)

    def source(self, case):
        return markup.serialize(case["nodes"])

    def nontrivial(self, case):
        def walk(ns):
            for n in ns:
                if n[0] == "e":
                    if n[2]:
                        return True
                    if walk(n[4]):
                        return True
                elif n[0] in ("c", "cd", "pi", "dt"):
                    return True
            return False
        return walk(case["nodes"])

    def labels(self, case):
        src = self.source(case)
        yield "xml" if src.startswith("<?xml") else "html"
        if "\r" in src:
            yield "cr"
        if "<!--" in src:
            yield "comment"
        if "<![CDATA[" in src:
            yield "cdata"
        if self.nontrivial(case):
            yield "attrs"
        if any(ord(c) > 127 for c in src):
            yield "non_ascii"

    def sample(self, case):
        return {"source": self.source(case)}

    def oracle(self, case):
        src = self.source(case)
        v = tok_violation(src)
        if v:
            return Mismatch("tok:" + v, {"source": src})
        stage, o = render_identity(src)
        if not o.ok:
            # The grammar only produces documents the template language
            # accepts: a rejection is a violation of "never loses".
            return Mismatch("ident:%s raises %s" % (stage, o.exc_name),
                            {"source": src, "outcome": o.brief()})
        exp = expected_identity(src)
        if o.value != exp:
            return Mismatch("ident:differs", {
                "source": src, "got": o.value, "expected": exp,
                "where": _first_diff(o.value, exp)})
        if "<!--" in src:
            # with comment interpolation switched off every comment is
            # inert - also one that opens with the "?" marker, which is
            # then not template syntax (only "<!--!" comments are dropped)
            src2 = src.replace("<!--", "<!--?", 1) \
                if len(src) % 2 else src
            stage, o = render_identity(
                src2, enable_comment_interpolation=False)
            exp2 = expected_identity(src2)
            if not o.ok or o.value != exp2:
                return Mismatch(
                    "ident:comment not verbatim with comment interpolation "
                    "off", {"source": src2, "expected": exp2,
                            "got": o.value if o.ok else o.brief()})
        return None


def _first_diff(a, b):
    n = min(len(a), len(b))
    for i in range(n):
        if a[i] != b[i]:
            return {"at": i, "got": a[max(0, i - 15):i + 15],
                    "expected": b[max(0, i - 15):i + 15]}
    return {"at": n, "got": a[n - 15:n + 15], "expected": b[n - 15:n + 15]}


ISLANDS = [
    # (statement attribute text, children text, render function)
    ("content", 'tal:content="v"'),
    ("replace", 'tal:replace="v"'),
    ("omit", 'tal:omit-tag=""'),
    ("attr", 'tal:attributes="zz v"'),
    ("cond_false", 'tal:condition="not v"'),
    ("interp", None),
]


class Island(Part):
    name = "island"
    examples = {"quick": 2500, "thorough": 60000}

    def strategy(self, tier):
        return st.fixed_dictionaries({
            "doc": markup.documents(max_depth=2, cr=False),
            "where": st.integers(0, 50),
            "kind": st.sampled_from([k for k, _ in ISLANDS]),
            "attrs": markup.attrs(cr=False, max_attrs=3,
                                  forms=("dq", "sq", "dq")),
            "stmt_pos": st.integers(0, 3),
            "stmt_space": st.sampled_from([" ", "  ", "\n ", "\t"]),
            "name": st.sampled_from(["span", "DIV", "b", "é"]),
            "close_space": st.sampled_from(["", " ", "\n"]),
            "end_space": st.sampled_from(["", " "]),
            "inner": markup.text_strategy(cr=False, max_size=3),
            "value": st.sampled_from(["V", "a&b", "<i>", "x y", ""]),
        })

    def build(self, case):
        """Return (source, expected)."""
        import html
        nodes = case["doc"]["nodes"]
        # choose the insertion point: among the children lists, in
        # document order
        slots = []

        def walk(lst):
            for i in range(len(lst) + 1):
                slots.append((lst, i))
            for n in lst:
                if n[0] == "e" and n[5] is not None:
                    walk(n[4])
        import copy
        nodes = copy.deepcopy(nodes)
        walk(nodes)
        if nodes and nodes[0][0] == "raw":
            # nothing may precede the XML declaration
            slots = [(l, i) for (l, i) in slots if not (l is nodes and i == 0)]
        lst, idx = slots[case["where"] % len(slots)]
        lst.insert(idx, ["raw", "\x00ISLAND\x00"])
        skeleton = markup.serialize(nodes)
        prefix, suffix = skeleton.split("\x00ISLAND\x00")

        kind = case["kind"]
        stmt = dict(ISLANDS)[kind]
        name = case["name"]
        # (repeated attribute names are kept: tag soup); nothing called zz
        attrs = [a for a in case["attrs"] if a[1].lower() != "zz"]
        pieces = [markup.ser_attr(a) for a in attrs]
        val = case["value"]
        esc = html.escape(val, quote=False)
        inner = case["inner"]
        if kind == "interp":
            inner_src = inner + "${v}"
            start_src = "<" + name + "".join(pieces) + case["close_space"] + ">"
            island_src = start_src + inner_src + "</" + name + \
                case["end_space"] + ">"
            island_exp = start_src + inner + esc + "</" + name + \
                case["end_space"] + ">"
        else:
            pos = case["stmt_pos"] % (len(pieces) + 1)
            with_stmt = pieces[:pos] + [case["stmt_space"] + stmt] + pieces[pos:]
            start_src = "<" + name + "".join(with_stmt) + \
                case["close_space"] + ">"
            start_exp = "<" + name + "".join(pieces) + case["close_space"] + ">"
            end = "</" + name + case["end_space"] + ">"
            island_src = start_src + inner + end
            if kind == "content":
                island_exp = start_exp + esc + end
            elif kind == "replace":
                island_exp = esc
            elif kind == "omit":
                island_exp = inner
            elif kind == "cond_false":
                island_exp = "" if val else start_exp + inner + end
            elif kind == "attr":
                q = html.escape(val, quote=False).replace('"', "&quot;")
                island_exp = "<" + name + "".join(pieces) + ' zz="' + q + \
                    '"' + case["close_space"] + ">" + inner + end
        src = prefix + island_src + suffix
        exp = prefix + island_exp + suffix
        return src, exp

    def nontrivial(self, case):
        return len(case["attrs"]) > 0

    def labels(self, case):
        yield case["kind"]

    def sample(self, case):
        s, e = self.build(case)
        return {"source": s, "expected": e, "v": case["value"]}

    def oracle(self, case):
        from chameleon import PageTemplate
        src, exp = self.build(case)
        o = run(PageTemplate, src)
        if not o.ok:
            return Mismatch("island:compile raises " + o.exc_name,
                            {"source": src, "outcome": o.brief()})
        o = run(o.value.render, v=case["value"])
        if not o.ok:
            return Mismatch("island:render raises " + o.exc_name,
                            {"source": src, "outcome": o.brief()})
        if o.value != exp:
            return Mismatch("island:%s differs" % case["kind"], {
                "source": src, "got": o.value, "expected": exp,
                "where": _first_diff(o.value, exp)})
        return None


def _tokex_chunk(args):
    prefix, length = args
    bad = []
    n = 0
    for tail in itertools.product(ALPHABET, repeat=length - len(prefix)):
        s = prefix + "".join(tail)
        n += 1
        v = tok_violation(s)
        if v and len(bad) < 3:
            bad.append((s, v))
    return n, bad


class TokExhaustive(Stage):
    name = "tokex"

    def oracle(self, case):
        v = tok_violation(case)
        return Mismatch("tokex:" + v, {"input": case}) if v else None

    def run(self, tier, seed, check):
        maxlen = 5 if tier == "quick" else 6
        jobs = []
        for length in range(0, maxlen + 1):
            if length <= 2:
                jobs.append(("", length))
            else:
                for p in itertools.product(ALPHABET, repeat=2):
                    jobs.append(("".join(p), length))
        ctx = multiprocessing.get_context("fork")
        with ctx.Pool(NCPU) as pool:
            res = pool.map(_tokex_chunk, jobs, chunksize=4)
        total = sum(r[0] for r in res)
        failures = []
        for _, bad in res:
            for s, v in bad:
                failures.append((s, Mismatch("tokex:" + v, {"input": s})))
        return {
            "evaluations": total,
            "nontrivial_ids": ["all-strings-le-%d" % maxlen, "alphabet"],
            "failures": failures[:5],
            "samples": [{"tokex_alphabet": ALPHABET, "max_length": maxlen}],
            "info": {"exhaustive": True, "alphabet": ALPHABET,
                     "max_length": maxlen, "strings": total},
        }


CHECK = Check(
    "C03", "exploration",
    rule=("tok: generated strings over markup fragments + arbitrary Unicode, "
          "non-trivial = contains '<' and longer than 2; ident: statement-free "
          "documents from vlib/markup.py (XML and HTML mode), non-trivial = has "
          "a tag with attributes or a comment/CDATA/PI/doctype, distinct by sha1 "
          "of the case; island: the same documents with one dynamic element "
          "spliced in, non-trivial = the island carries static attributes; "
          "tokex: exhaustive enumeration of all strings over %r up to the "
          "tier's length bound" % ALPHABET),
    parts=[Tok(), Ident(), Island()],
    stages=[FuzzStage("checks.c03", "tok", 60000), FuzzStage("checks.c03", "ident", 20000), TokExhaustive()],
    assumptions=[
        "documents contain no ${, no $$, no <!--! / <!--? comment and no "
        "template-namespace markup (outside the property's scope)",
        "foreign prefixes are declared (undeclared ones are rejected by design "
        "under restricted_namespace)",
        "html.escape is the escaping oracle for the island values",
    ],
    technique="Hypothesis grammar-based generation + round-trip/identity "
              "oracle; exhaustive enumeration of the tokenizer alphabet",
)
