"""C12 - Render errors keep their type and name the failing expression and
position.

Parts
  single  valid generated templates in which expressions are replaced (with
          probability 1/5) by a call that logs its tag and raises; the
          reference interpreter tells which planted failure is reached
          first.  render() must raise; the exception must still be an
          instance of the planted class with equal args; for Exception
          subclasses it must also be a RenderError whose message starts with
          a record (expression text, filename, line, column) equal to the
          planted site's exact source text and position; RecursionError is
          not wrapped; KeyboardInterrupt / SystemExit / GeneratorExit never
          become Exception subclasses.
  chain   macro chains: whole templates used as macros through load: over
          1..3 files on disk, and a macro of the same template; the failing
          expression sits in the innermost template.  Records must list the
          failing expression and then every use-macro call site, innermost
          to outermost, each with its own file name, line and column.
"""
from __future__ import annotations

import os
import re
import shutil
import tempfile

from hypothesis import strategies as st

from vlib import exprs, tmodel, tstrat, values
from vlib.cham import run
from vlib.harness import Check, HarnessError, Mismatch, Part

REC_RE = re.compile(
    r' - Expression: "(.*?)"\n - Filename:   (.*?)\n - Location:   '
    r'\(line (\d+): col (\d+)\)', re.S)
NON_EXCEPTION = ("KeyboardInterrupt", "SystemExit", "GeneratorExit")
ENT = re.compile(r"&(#[0-9]+|#x[0-9a-fA-F]+|\w{1,8});")


def line_col(src, off):
    before = src[:off]
    return before.count("\n") + 1, off - before.rfind("\n") - 1


def class_checks(exc, cls_name):
    """Type-level obligations; returns a reason or None."""
    from chameleon.exc import RenderError
    cls = exprs.EXC_CLASSES[cls_name]
    if not isinstance(exc, cls):
        return "no longer an instance of the original class"
    if cls_name in NON_EXCEPTION:
        if isinstance(exc, Exception):
            return "non-Exception turned into an Exception subclass"
        return None
    if cls_name == "RecursionError":
        if isinstance(exc, RenderError):
            return "RecursionError was wrapped"
        return None
    if not isinstance(exc, RenderError):
        return "not a RenderError"
    want = cls().args
    if tuple(exc.args) != tuple(want):
        return "args differ"
    return None


class Single(Part):
    name = "single"
    examples = {"quick": 1500, "thorough": 50000}
    floors = {"failure": 0.3}

    def strategy(self, tier):
        # (the template is written with one of three line-ending styles;
        # lines and columns are the same in all of them)
        return st.tuples(
            tstrat.templates(depth=2 if tier == "quick" else 3,
                             max_elems=8, fail_p=4, len_ok=False,
                             fail_classes=True),
            st.sampled_from(["\n", "\n", "\r\n", "\r"])).map(
                lambda t: dict(t[0], eol=t[1]))

    def source(self, case):
        return tmodel.serialize(case["nodes"])

    def model(self, case):
        r = tmodel.run_model(case["nodes"], values.env(case["bindings"]))
        if r[0] != "exc":
            return None
        return r[1]

    def _planted(self, case):
        exc = self.model(case)
        if exc is None or getattr(exc, "_verif_tag", None) is None:
            return None
        return exc

    def _site(self, case, out, tag):
        for s in out.sites:
            if ("'" + tag + "'") in s["text"] or ('"' + tag + '"') in \
                    s["text"] or ("&#39;" + tag + "&#39;") in s["text"] or \
                    ("&quot;" + tag + "&quot;") in s["text"]:
                return s
        return None

    def nontrivial(self, case):
        exc = self._planted(case)
        if exc is None:
            return False
        out = self.source(case)
        s = self._site(case, out, exc._verif_tag)
        if s is None:
            return False
        src = out.text()
        start = max(src.rfind('="', 0, s["offset"]),
                    src.rfind("='", 0, s["offset"]),
                    src.rfind(">", 0, s["offset"]))
        seg = src[start + 1:s["offset"]]
        return any(c in seg for c in ";&\n") or "\n" in src[:s["offset"]]

    def labels(self, case):
        exc = self._planted(case)
        if exc is not None:
            yield "failure"
            yield "cls_" + type(exc).__name__

    def sample(self, case):
        return {"source": self.source(case).text()}

    def oracle(self, case):
        from chameleon import PageTemplate
        exc = self._planted(case)
        if exc is None:
            return None          # nothing planted is reached first
        out = self.source(case)
        src = out.text()
        cls_name = type(exc).__name__
        site = self._site(case, out, exc._verif_tag)
        detail = {"source": src, "bindings": case["bindings"],
                  "class": cls_name, "tag": exc._verif_tag}
        o = run(PageTemplate, src.replace("\n", case.get("eol", "\n")))
        if not o.ok:
            return Mismatch("single:compile raises " + o.exc_name,
                            dict(detail, outcome=o.brief()))
        log = []
        env = values.env(case["bindings"])
        env["rec"], env["boom"] = exprs.make_callables(log)
        r = run(o.value.render, **env)
        if r.ok:
            return Mismatch("single:partial or full output returned",
                            dict(detail, got=r.value))
        why = class_checks(r.exc, cls_name)
        if why:
            return Mismatch("single:" + why, dict(
                detail, got=type(r.exc).__mro__.__repr__()))
        if cls_name in NON_EXCEPTION or cls_name == "RecursionError":
            return None
        try:
            msg = str(r.exc)
        except Exception as e:  # noqa: BLE001 - the message is under test
            return Mismatch("single:the message cannot be built (%s)"
                            % type(e).__name__, detail)
        recs = REC_RE.findall(msg)
        if not recs:
            return Mismatch("single:message has no expression record",
                            dict(detail, message=msg[:800]))
        text, fn, line, col = recs[0]
        want_text = site["text"]
        want_pos = line_col(src, site["offset"])
        detail.update(record=[text, fn, int(line), int(col)],
                      expected=[want_text, "<string>", want_pos[0],
                                want_pos[1]])
        if len(recs) != 1:
            return Mismatch("single:unexpected number of records", detail)
        if fn.strip() != "<string>":
            return Mismatch("single:filename", detail)
        ok = text == want_text and (int(line), int(col)) == want_pos
        if ok:
            return None
        # K12 family: entities / ';;' written in or before the expression
        # make the quoted text a shifted or truncated slice of the source
        start = max(src.rfind('="', 0, site["offset"]),
                    src.rfind("='", 0, site["offset"]))
        s2 = src.rfind("${", 0, site["offset"])
        seg_start = s2 if s2 > start and s2 > src.rfind(
            "}", 0, site["offset"]) else start
        seg = src[seg_start:site["offset"] + len(want_text)] \
            if seg_start >= 0 else ""
        # (an escape in an EARLIER part of the statement moves nothing)
        if ENT.search(seg) or ";;" in want_text:
            return Mismatch("single:K12", detail)
        if text != want_text:
            return Mismatch("single:expression text differs", detail)
        return Mismatch("single:position differs", detail)

    def known(self, case, mismatch):
        return "K12" if mismatch.bucket == "single:K12" else None


FAIL_CLASSES = ["ValueError", "KeyError", "CustomError", "StrError",
                "OSError", "FileNotFoundError", "TimeoutError",
                "ZeroDivisionError", "UnicodeError", "AttributeError",
                "RecursionError", "KeyboardInterrupt", "SystemExit",
                "GeneratorExit", "StopIteration", "AssertionError",
                "Exception", "Exception", "UserWarning",
                # the library's own error class raised by application code,
                # and an application class that derives from it
                "RenderError", "AppRenderError"]
LEADS = ["", "\n", "é日本\n  ", "<!-- c -->\n", "<b>x</b> "]
FAIL_SITES = {
    "text": "<i>{lead}${{boom('{cls}', 'T')}}</i>",
    "content": '<i tal:content="boom(\'{cls}\', \'T\')">{lead}</i>',
    "define2": '{lead}<i tal:define="a 1; b boom(\'{cls}\', \'T\')">x</i>',
    "attr": '{lead}<i title="t ${{boom(\'{cls}\', \'T\')}}">x</i>',
    # escaped semicolons in earlier parts of the statement
    "define_esc": '{lead}<i tal:define="a \'x;;y\'; c \';;\'; '
                  'b boom(\'{cls}\', \'T\')">x</i>',
    "attributes_esc": '<i tal:attributes="a \'p;;q\'; b boom(\'{cls}\', '
                      '\'T\')">{lead}</i>',
    "attributes": '<i tal:attributes="a 1;\n  b boom(\'{cls}\', \'T\')">'
                  '{lead}</i>',
    "repeat": '{lead}<i tal:repeat="x boom(\'{cls}\', \'T\')">x</i>',
    "pipe": '{lead}<i tal:content="nosuch | boom(\'{cls}\', \'T\')">x</i>',
    "codeblock": "{lead}<?python\n  boom('{cls}', 'T')\n?>",
}


def expr_of(kind, cls):
    if kind == "pipe":
        return "nosuch | boom('%s', 'T')" % cls
    if kind == "codeblock":
        return "\n  boom('%s', 'T')\n" % cls
    return "boom('%s', 'T')" % cls


class Stable(Part):
    """An exception raised by render() keeps telling the same story: its
    message, type and arguments do not change when later renderings fail
    (in the same or in other templates, with the same exception class)."""
    name = "stable"
    examples = {"quick": 150, "thorough": 3000}

    def strategy(self, tier):
        return st.fixed_dictionaries({
            "cls": st.sampled_from([c for c in FAIL_CLASSES if c not in
                                    NON_EXCEPTION and c != "RecursionError"]),
            "sites": st.lists(st.sampled_from(sorted(FAIL_SITES)), min_size=2,
                              max_size=4),
            "other_cls": st.booleans(),
            "lead": st.sampled_from(LEADS),
        })

    def nontrivial(self, case):
        return not case["other_cls"]

    def labels(self, case):
        yield "same_class" if not case["other_cls"] else "mixed_classes"

    def oracle(self, case):
        from chameleon import PageTemplate
        rec, boom = exprs.make_callables([])
        kept = []
        for k, site in enumerate(case["sites"]):
            cls = case["cls"]
            if case["other_cls"] and k % 2:
                cls = "ValueError" if cls != "ValueError" else "KeyError"
            src = ("<div>" + "x" * k + FAIL_SITES[site].format(
                lead=case["lead"], cls=cls) + "</div>").replace(
                    "'T'", "'T%d'" % k)
            o = run(PageTemplate, src)
            if o.ok:
                o = run(o.value.render, boom=boom, rec=rec)
            if o.ok or not hasattr(o.exc, "_verif_planted"):
                raise HarnessError("scaffold did not fail as planned: %s"
                                   % o.brief())
            try:
                now = (str(o.exc), type(o.exc).__mro__[1:], tuple(o.exc.args))
            except Exception as e:  # noqa: BLE001
                return Mismatch("stable:the message cannot be built (%s)"
                                % type(e).__name__, {"source": src})
            kept.append((src, o.exc, now))
            for src0, exc0, then in kept[:-1]:
                again = (str(exc0), type(exc0).__mro__[1:], tuple(exc0.args))
                if again != then:
                    return Mismatch(
                        "stable:an earlier exception changed after a later "
                        "failure", {"first": src0, "later": src,
                                    "message_then": then[0][:600],
                                    "message_now": again[0][:600]})
        return None


class Chain(Part):
    name = "chain"
    examples = {"quick": 400, "thorough": 12000}

    def strategy(self, tier):
        return st.fixed_dictionaries({
            "depth": st.integers(0, 3),
            "internal": st.booleans(),
            "filler": st.booleans(),
            # a macro that uses itself: the same call site several times
            "recursive": st.sampled_from([0, 0, 0, 1, 2, 3, 5]),
            "cls": st.sampled_from(FAIL_CLASSES),
            "site": st.sampled_from(sorted(FAIL_SITES)),
            "leads": st.lists(st.sampled_from(LEADS), min_size=4,
                              max_size=4),
            "xml": st.booleans(),
            "eol": st.sampled_from(["\n", "\n", "\r\n", "\r"]),
            # XML files may be in another encoding (declared)
            "file_encoding": st.sampled_from([None, None, "iso-8859-1",
                                              "utf-16"]),
            # an earlier failure inside another template's macro that an
            # on-error element has handled: it must leave no trace
            "handled_before": st.sampled_from([False, False, True,
                                               "filler"]),
            # the macro expression of a call site has a part of its own
            # that is evaluated (load: ${...}.pt)
            "call_form": st.sampled_from(["plain", "plain", "interp",
                                          "interp_var"]),
        })

    def files(self, case):
        files = self._files(case)
        if case.get("handled_before") == "filler":
            # ... the handled failure comes from a slot filler and the
            # handler stands in the macro, around the slot
            pre = ('<r><p metal:use-macro="load: guard.pt"><b metal:fill-slot'
                   '="s">${boom(\'ValueError\', \'H\')}</b></p>')
            f0 = files[0]
            f0[1] = pre + f0[1] + "</r>"
            f0[2] = [(e, o + len(pre)) for e, o in f0[2]]
            files.append(["guard.pt", '<p>g<div tal:on-error="string:H">'
                          '<span metal:define-slot="s">d</span></div></p>',
                          []])
        elif case.get("handled_before"):
            pre = ('<r><div tal:on-error="string:H"><p metal:use-macro="'
                   'load: bad.pt">u</p></div>')
            f0 = files[0]
            f0[1] = pre + f0[1] + "</r>"
            f0[2] = [(e, o + len(pre)) for e, o in f0[2]]
            files.append(["bad.pt", "<p>${boom('ValueError', 'H')}</p>", []])
        if case["xml"]:
            enc = case.get("file_encoding")
            decl = '<?xml version="1.0"?>\n' if not enc else \
                '<?xml version="1.0" encoding="%s"?>\n<!-- caf\u00e9 -->' % enc
            for f in files:
                f[1] = decl + f[1]
                f[2] = [(e, o + len(decl)) for e, o in f[2]]
        return files

    def setup_shard(self, tier, shard):
        self.tmp = tempfile.mkdtemp(prefix="c12-")
        self.n = 0

    def teardown_shard(self):
        shutil.rmtree(getattr(self, "tmp", ""), ignore_errors=True)

    def _files(self, case):
        """[(filename, source, [(expression text, offset)])]: file 0 is the
        one rendered; the failure is in the last one."""
        d = case["depth"]
        out = []
        inner = FAIL_SITES[case["site"]].format(lead=case["leads"][0],
                                                cls=case["cls"])
        fail_expr = expr_of(case["site"], case["cls"])
        if case.get("recursive"):
            r = case["recursive"]
            call = "load: tree.pt"
            tree = ("<ul>" + case["leads"][1] +
                    '<li tal:condition="n == 0">' + inner + "</li>"
                    '<li tal:define="n n - 1" tal:condition="n >= 0" '
                    'metal:use-macro="' + call + '">x</li></ul>')
            main = ("<html>" + case["leads"][2] + '<body tal:define="n %d" '
                    'metal:use-macro="%s">x</body></html>' % (r, call))
            files = [["main.pt", main, [(call, main.index(call))]],
                     ["tree.pt", tree,
                      [(fail_expr, tree.index(fail_expr))] +
                      [(call, tree.index(call))] * r]]
            return files
        if case["internal"]:
            # the failing markup lives in a macro of the same template
            body = ('<div><tal:block condition="False">'
                    '<p metal:define-macro="m">' + inner + "</p>"
                    "</tal:block>" + case["leads"][1] +
                    '<span metal:use-macro="template.macros[\'m\']">u</span>'
                    "</div>")
            calls = [(fail_expr, body.index(fail_expr)),
                     ("template.macros['m']",
                      body.index("template.macros['m']"))]
        else:
            body = "<div>" + inner + "</div>"
            calls = [(fail_expr, body.index(fail_expr))]
        filler = case.get("filler") and d >= 1 and not case["internal"]
        if filler:
            # the innermost file is a pure macro; the failing markup is the
            # slot filler written in the file that uses it
            out.append(["f%d.pt" % d, "<div>${1 + 1}\n <span "
                        'metal:define-slot="s">d</span></div>', []])
        else:
            out.append(["f%d.pt" % d, body, calls])
        for level in range(d - 1, -1, -1):
            callee = out[0][0]
            lead = case["leads"][(level + 1) % 4]
            expr = "load: " + callee
            form = case.get("call_form", "plain")
            if form == "interp":
                expr = "load: ${'%s'}.pt" % callee[:-3]
            elif form == "interp_var":
                expr = "load: ${stem}%s" % callee[1:]
            if filler and level == d - 1:
                src = ("<html>" + lead + '<body metal:use-macro="' + expr +
                       '"><p metal:fill-slot="s">' + inner +
                       "</p></body></html>")
                out.insert(0, ["f%d.pt" % level, src,
                               [(fail_expr, src.index(fail_expr)),
                                (expr, src.index(expr))]])
                continue
            src = ("<html>" + lead + '<body metal:use-macro="' + expr +
                   '">x</body></html>')
            out.insert(0, ["f%d.pt" % level, src, [(expr, src.index(expr))]])
        return out

    def nontrivial(self, case):
        return case["depth"] >= 1 or case["internal"] or \
            bool(case.get("recursive"))

    def labels(self, case):
        yield "depth%d" % case["depth"]
        if case.get("recursive"):
            yield "recursive"
        if case["internal"]:
            yield "internal_macro"
        if case.get("filler") and case["depth"] >= 1 and \
                not case["internal"]:
            yield "slot_filler"
        yield "cls_" + case["cls"]
        if case.get("handled_before"):
            yield "handled_failure_before"

    def sample(self, case):
        return {"files": [(f[0], f[1]) for f in self.files(case)]}

    def oracle(self, case):
        from chameleon import PageTemplateFile
        files = self.files(case)
        tmp = getattr(self, "tmp", None) or tempfile.mkdtemp(prefix="c12-")
        self.n = getattr(self, "n", 0) + 1
        d = os.path.join(tmp, "c%d" % self.n)
        os.makedirs(d, exist_ok=True)
        eol = case.get("eol", "\n")
        if case["site"] == "codeblock":
            eol = "\n"      # (the expression text itself spans lines)
        if case["xml"] and eol == "\r":
            # (XML mode keeps line endings as written and counts lines by
            # line feeds: a lone CR is not generated there)
            eol = "\r\n"
        enc = (case.get("file_encoding") if case["xml"] else None) or \
            "utf-8"
        if enc != "utf-8" and any(ord(c) > 255 for f_ in files
                                  for c in f_[1]) and enc != "utf-16":
            enc = "utf-8"      # (text outside the declared repertoire)
        for name, src, _ in files:
            text = src.replace("\n", eol)
            if enc == "utf-8":
                text = text.replace(' encoding="%s"' % case.get(
                    "file_encoding"), "")
            with open(os.path.join(d, name), "wb") as f:
                f.write(text.encode(enc))
        detail = {"files": [(f[0], f[1]) for f in files],
                  "class": case["cls"]}
        log = []
        rec, boom = exprs.make_callables(log)
        o = run(PageTemplateFile, os.path.join(d, files[0][0]))
        if o.ok:
            o = run(o.value.render, boom=boom, rec=rec, stem="f")
        # (the message is built while the files are still there: it quotes
        # the source line from the file)
        early = None
        if not o.ok:
            try:
                early = str(o.exc)
            except Exception as e:  # noqa: BLE001 - under test
                early = e
        shutil.rmtree(d, ignore_errors=True)
        if o.ok:
            return Mismatch("chain:output returned", dict(detail,
                                                          got=o.value))
        if not hasattr(o.exc, "_verif_planted"):
            return Mismatch("chain:raises " + o.exc_name,
                            dict(detail, outcome=o.brief()))
        why = class_checks(o.exc, case["cls"])
        if why:
            return Mismatch("chain:" + why, dict(
                detail, mro=repr(type(o.exc).__mro__)))
        if case["cls"] in NON_EXCEPTION or case["cls"] == "RecursionError":
            return None
        if isinstance(early, Exception):
            return Mismatch("chain:the message cannot be built (%s)"
                            % type(early).__name__, detail)
        msg = early
        recs = [(t, fn.strip(), int(l), int(c))
                for t, fn, l, c in REC_RE.findall(msg)]
        want = []
        for name, src, calls in reversed(files):
            for text, off in calls:
                want.append((text, name) + line_col(src, off))
        detail.update(records=recs, expected=want)
        if len(recs) != len(want):
            return Mismatch("chain:number of records", dict(
                detail, message=msg[:1500]))
        for got, exp in zip(recs, want):
            if got[0] != exp[0]:
                return Mismatch("chain:expression text", detail)
            if not got[1].endswith(exp[1]):
                return Mismatch("chain:filename", detail)
            if got[2:] != exp[2:]:
                return Mismatch("chain:position", detail)
        return None


CALL_SITES = {
    "text": "<div>{lead}${{structure: sub({k})}}</div>",
    "content": '<div tal:content="structure: sub({k})">{lead}</div>',
    "replace": '{lead}<div tal:replace="structure: sub({k})"/>',
    "define": '{lead}<div tal:define="a 1; part sub({k})">${{part}}</div>',
    "attr": '{lead}<div title="${{sub({k})}}">x</div>',
}


class Nested(Part):
    """A template that renders another template from one of its expressions
    (each a render() call of its own): the message names the failing
    expression and then the calling expression of every enclosing template,
    innermost first - also when somebody on the way up has looked at the
    exception (logged it, formatted a traceback) before passing it on."""
    name = "nested"
    examples = {"quick": 300, "thorough": 8000}
    floors = {"peek": 0.4}

    def strategy(self, tier):
        return st.fixed_dictionaries({
            "depth": st.integers(1, 3),
            "cls": st.sampled_from([c for c in FAIL_CLASSES if c not in
                                    NON_EXCEPTION and c != "RecursionError"]),
            "site": st.sampled_from(sorted(
                k for k in FAIL_SITES if k != "codeblock")),
            "calls": st.lists(st.sampled_from(sorted(CALL_SITES)),
                              min_size=3, max_size=3),
            "leads": st.lists(st.sampled_from(LEADS), min_size=4,
                              max_size=4),
            # who looks at the exception at which level, and how
            "peek": st.lists(st.sampled_from(
                [None, None, "str", "repr", "traceback", "args"]),
                min_size=3, max_size=3),
            "renders": st.integers(1, 2),
            # the failing markup stands in a macro that is rendered where
            # it is defined, behind other expressions of the template
            "inplace": st.booleans(),
        })

    def labels(self, case):
        yield "depth%d" % case["depth"]
        if case.get("inplace"):
            yield "inplace_macro"
        if any(case["peek"][:case["depth"]]):
            yield "peek"
        if any(p in ("str", "traceback")
               for p in case["peek"][:case["depth"]]):
            yield "message_built_on_the_way"

    def nontrivial(self, case):
        return True

    def sources(self, case):
        d = case["depth"]
        out = []
        for k in range(d):
            out.append(CALL_SITES[case["calls"][k]].format(
                lead=case["leads"][k], k=k + 1))
        fail = FAIL_SITES[case["site"]].format(lead=case["leads"][3],
                                               cls=case["cls"])
        if case.get("inplace"):
            fail = ('<b title="${2 + 2}">${1 + 1}</b><p metal:define-macro='
                    '"m"><u metal:define-macro="inner">' + fail + "</u></p>")
        out.append("<div>" + fail + "</div>")
        return out

    def sample(self, case):
        return {"templates": self.sources(case), "peek": case["peek"]}

    def oracle(self, case):
        import traceback
        from chameleon import PageTemplate
        srcs = self.sources(case)
        o = run(lambda: [PageTemplate(x) for x in srcs])
        detail = {"templates": srcs, "peek": case["peek"],
                  "class": case["cls"]}
        if not o.ok:
            return Mismatch("nested:does not compile", dict(
                detail, outcome=o.brief()))
        ts = o.value
        log = []
        rec, boom = exprs.make_callables(log)

        def sub(k):
            try:
                return ts[k].render(sub=sub, boom=boom, rec=rec)
            except Exception as e:
                how = case["peek"][k - 1]
                if how == "str":
                    str(e)
                elif how == "repr":
                    repr(e)
                elif how == "traceback":
                    traceback.format_exception(type(e), e, e.__traceback__)
                elif how == "args":
                    e.args
                raise
        want = [(expr_of(case["site"], case["cls"]),
                 line_col(srcs[-1], srcs[-1].index(
                     expr_of(case["site"], case["cls"]))))]
        for k in range(case["depth"] - 1, -1, -1):
            # (of "structure: sub(1)" the part that failed is named)
            call = "sub(%d)" % (k + 1)
            want.append((call, line_col(srcs[k], srcs[k].index(call))))
        for r in range(case["renders"]):
            o = run(ts[0].render, sub=sub, boom=boom, rec=rec)
            if o.ok:
                return Mismatch("nested:output returned", detail)
            if not hasattr(o.exc, "_verif_planted"):
                return Mismatch("nested:raises " + o.exc_name, dict(
                    detail, outcome=o.brief()))
            why = class_checks(o.exc, case["cls"])
            if why:
                return Mismatch("nested:" + why, detail)
            try:
                msg = str(o.exc)
            except Exception as e:  # noqa: BLE001 - under test
                return Mismatch("nested:the message cannot be built (%s)"
                                % type(e).__name__, detail)
            recs = [(t, (int(l), int(c)))
                    for t, fn, l, c in REC_RE.findall(msg)]
            if recs != want:
                kind = "number of records" if len(recs) != len(want) else \
                    "records differ"
                return Mismatch("nested:%s (%s)" % (kind, "first rendering"
                                if r == 0 else "later rendering"),
                                dict(detail, records=recs, expected=want,
                                     message=msg[:1500]))
        return None


CHECK = Check(
    "C12", "fault_enumeration",
    rule=("single: generated templates whose expressions are replaced with "
          "probability 1/5 by a logging call raising one of 22 classes; the "
          "reference interpreter determines the first failure reached; "
          "non-trivial = that site is preceded by a separator, entity or "
          "newline; chain: 8 failure sites x 16 classes x load: chains of "
          "depth 0..3 over files on disk x same-template macro x XML/HTML, "
          "non-trivial = depth >= 1 or internal macro; distinct by sha1; "
          "nested: 1..3 templates each rendering the next from an "
          "expression (5 kinds of calling sites), the innermost failing at "
          "one of the sites, the exception looked at (str / repr / "
          "traceback / args) or not at each level on its way up, 1..2 "
          "renderings"),
    parts=[Single(), Chain(), Stable(), Nested()],
    assumptions=[
        "the expected expression text is the site's source text as written "
        "(stripped); cases where entities or ';;' are written in or before "
        "the expression are attributed to K12 (same root cause as C11)",
        "file names in messages are compared by their ending (long paths are "
        "ellipsified by the formatter)",
    ],
    technique="fault planting at known source coordinates + reference "
              "interpreter for reachability + message record parsing",
)
