"""C11 - Template errors surface as TemplateError with the exact source
location.

Planted faults with known coordinates.  The serializer records the absolute
offset and the exact text of every expression / inserted snippet, so the
generator knows where the offending substring stands.

Parts
  expr    a valid generated template (multi-line, non-ASCII, entities and
          ';;' escapes before the fault) in which one expression site - any
          statement argument, any ';'-separated part, any ${} in text or an
          attribute, or a later pipe alternative - is replaced by invalid
          Python.  Constructing the template must raise a TemplateError
          whose token is the planted text, with
          source[offset:offset+len(token)] == token, location == (line,
          column) recomputed from the offset, and str(exc) naming them.
  stmt    a statement-level error from a catalogue (malformed define /
          repeat, unknown tal: metal: i18n: attribute, content+replace,
          case without switch, fill-slot without use-macro, define-macro +
          fill-slot, bad meta:interpolation, duplicate name in
          tal:attributes, bad i18n:attributes, i18n:name outside / duplicated,
          '--' in a comment, end tag without start tag, reserved names,
          unknown expression type ...) inserted as a snippet at a random
          position of a valid template: TemplateError, token inside the
          snippet, slice == token, consistent line/column.
Valid templates are never rejected: asserted by C01 / C03 / C04 on every
generated valid template (a compile error there is a violation there).
"""
from __future__ import annotations

import copy
import re

from hypothesis import strategies as st

from vlib import tmodel, tstrat
from vlib.cham import run
from vlib.harness import Check, Mismatch, Part
from checks.c19 import expr_slots, INVALID_SHAPES

# invalid expressions written over several lines
ML_SHAPES = ["%d +\n   %d +", "(%d,\n %d", "[%d,\n\n  %d", "%d\n%d"]

ENT = re.compile(r"&(#[0-9]+|#x[0-9a-fA-F]+|\w{1,8});")


def squeeze(s):
    return re.sub(r"\s+", " ", s.strip())


def line_col(src, off):
    before = src[:off]
    return before.count("\n") + 1, off - before.rfind("\n") - 1


def entity_shift(src, start, end):
    """Characters lost by decoding the entities in src[start:end]."""
    import html
    return sum(len(m.group()) - len(html.unescape(m.group()))
               for m in ENT.finditer(src, start, end))


def check_location(src, exc, true_off=None):
    """Generic consistency of a TemplateError against the source.
    Returns a reason string or None."""
    tok = str(exc.token)
    off = exc.offset
    # (line breaks inside an expression are reported as blanks)
    if re.sub("[\r\n]", " ", src[off:off + len(tok)]) != \
            re.sub("[\r\n]", " ", tok):
        return "slice at offset differs from token"
    if tuple(exc.location) != line_col(src, off):
        return "location differs from offset"
    if tok and "(line %d: col %d)" % line_col(src, off) not in str(exc):
        return "message does not name the location"
    if true_off is not None and off != true_off:
        return "offset is not the planted position"
    return None


@st.composite
def expr_cases(draw):
    case = draw(tstrat.templates(depth=2, max_elems=8, rec=True,
                                 onerror=1, onerror_simple=True))
    nodes = copy.deepcopy(case["nodes"])
    slots = expr_slots(nodes)
    i = draw(st.integers(0, max(0, len(slots) - 1)))
    shape = draw(st.sampled_from(INVALID_SHAPES + ML_SHAPES))
    text = shape % ((77,) * shape.count("%d")) if "%d" in shape \
        else shape + " 77 +"
    alt = False
    if slots:
        cont, key = slots[i]
        old = cont[key]
        alt = draw(st.integers(0, 3)) == 0 and old[0] not in ("default",
                                                               "nothing")
        cont[key] = ["pipe", [old, ["invalid", text]]] if alt else \
            ["invalid", text]
    # a leading block that pushes the fault to another line/column
    lead = draw(st.sampled_from(["", "\n", "é日本\n  ", "<!-- c -->\n\n",
                                 "a &amp; b\n"]))
    if lead:
        nodes.insert(0, ["raw", lead])
    if draw(st.integers(0, 5)) == 0:
        # the fault stands in an attribute value that is wrapped over
        # several lines (instead of in one of the generated sites)
        nodes = copy.deepcopy(case["nodes"])
        if lead:
            nodes.insert(0, ["raw", lead])
        wrap = draw(st.sampled_from(["\n     ", "\n\t", " \n  \n   ", "  "]))
        shape = draw(st.sampled_from([
            '<i class="a%sb%s${%s}" id="z">w</i>',
            # ... or in a processing instruction (behind a valid one)
            '<?pi x%s${1 + 1}%s${%s} ?>',
            '<?xml-stylesheet href="a"%s%s${%s}?>']))
        nodes.insert(draw(st.integers(0, len(nodes))), ["raw",
                     shape % (wrap, wrap, text)])
        alt = False
        slots = [None]
    return {"nodes": nodes, "text": text, "alt": alt, "planted": bool(slots),
            # line-ending style the template is written with (positions are
            # the same: a CR LF pair is one line break)
            "eol": draw(st.sampled_from(["\n", "\n", "\r\n", "\r"])),
            # options that must not move error positions
            "options": draw(st.sampled_from([{}, {}, {
                "trim_attribute_space": True}, {
                "enable_data_attributes": True}, {
                "implicit_i18n_translate": True,
                "implicit_i18n_attributes": ["class", "title"]}]))}


class ExprErrors(Part):
    name = "expr"
    examples = {"quick": 1500, "thorough": 50000}
    floors = {"not_first": 0.3}

    def strategy(self, tier):
        return expr_cases()

    def _src(self, case):
        return tmodel.serialize(case["nodes"])

    def _site(self, case):
        out = self._src(case)
        src = out.text()
        off = src.find(case["text"])
        return out, src, off

    def _preceded(self, case):
        """Is the fault preceded, inside its own attribute / text node, by a
        separator, an escape, an entity, a newline or non-ASCII text?"""
        out, src, off = self._site(case)
        if off < 0:
            return False
        start = max(src.rfind('="', 0, off), src.rfind("='", 0, off),
                    src.rfind(">", 0, off))
        seg = src[start + 1:off]
        return any(c in seg for c in ";&|\n") or any(ord(c) > 127
                                                     for c in seg) or \
            "\n" in src[:off]

    def nontrivial(self, case):
        return case["planted"] and self._preceded(case)

    def labels(self, case):
        if case["planted"] and self._preceded(case):
            yield "not_first"
        if case["alt"]:
            yield "pipe_alternative"

    def sample(self, case):
        return {"source": self._src(case).text(), "planted": case["text"]}

    def oracle(self, case):
        from chameleon import PageTemplate
        from chameleon.exc import TemplateError
        if not case["planted"]:
            return None
        out, src, true_off = self._site(case)
        detail = {"source": src, "planted": case["text"],
                  "true_offset": true_off}
        opts = dict(case.get("options") or {})
        if "implicit_i18n_attributes" in opts:
            opts["implicit_i18n_attributes"] = set(
                opts["implicit_i18n_attributes"])
        eol = case.get("eol", "\n")
        if src.startswith("<?xml"):
            # XML mode: line endings are kept as written, positions refer
            # to the text as given (lines are counted by line feeds: a lone
            # CR is not generated there)
            eol = "\r\n" if eol == "\r" else eol
            src = src.replace("\n", eol)
            true_off = src.find(case["text"].replace("\n", eol))
            detail.update(source=src, true_offset=true_off)
            eol = "\n"
        o = run(PageTemplate, src.replace("\n", eol), **opts)
        if o.ok:
            return Mismatch("expr:accepted", detail)
        if not isinstance(o.exc, TemplateError):
            return Mismatch("expr:raises " + o.exc_name,
                            dict(detail, outcome=o.brief()))
        tok = str(o.exc.token)
        off = o.exc.offset
        detail.update(token=tok, offset=off, location=list(o.exc.location),
                      found=src[off:off + len(tok)])
        truncated = False
        if squeeze(tok) != squeeze(case["text"]):
            # the brace-truncated head of a ${...} candidate is tolerated
            # (the whole candidate was tried first); anything else is not
            inside = src.rfind("${", 0, off + 1) > src.rfind("}", 0, off)
            if inside and src[off + len(tok):off + len(tok) + 1] == "}" \
                    and off <= true_off and "${" not in src[off:true_off]:
                truncated = True
            else:
                return Mismatch("expr:token is not the planted text", detail)
        want = None if truncated else true_off + (
            len(case["text"]) - len(case["text"].lstrip()))
        why = check_location(src, o.exc, want)
        if why is None:
            return None
        # K12: entities written before the fault in the same attribute value
        # / interpolation shift the reported position to the left
        start = max(src.rfind('="', 0, true_off), src.rfind("='", 0,
                                                            true_off))
        s2 = src.rfind("${", 0, true_off)
        in_interp = s2 > src.rfind("}", 0, true_off) and s2 > start
        seg_start = s2 if in_interp else start
        shift = entity_shift(src, seg_start, true_off) if seg_start >= 0 \
            else 0
        if shift and off == true_off - shift and \
                squeeze(tok) == squeeze(case["text"]):
            return Mismatch("expr:K12", dict(detail, shift=shift))
        return Mismatch("expr:" + why, detail)

    def known(self, case, mismatch):
        return "K12" if mismatch.bucket == "expr:K12" else None


# name -> (snippet, needs_context)
SNIPPETS = {
    "define_malformed": '<i tal:define="1x 2">a</i>',
    "define_second_part": '<i tal:define="ok 1; 2x 3">a</i>',
    "define_after_escape": '<i tal:define="ok \'a;;b\'; 2x 3">a</i>',
    "define_blank": '<i tal:define=" ">a</i>',
    "define_empty": '<i tal:define="">a</i>',
    "define_blank_lines": '<i tal:define="\n    ">a</i>',
    "attributes_blank": '<i tal:attributes=" ">a</i>',
    "data_unknown_tal": ('<i data-tal-contnt="1">a</i>',
                         {"enable_data_attributes": True}),
    "data_unknown_i18n": ('<i class="c" data-i18n-translat="">a</i>',
                          {"enable_data_attributes": True}),
    "data_unknown_metal": ('<i data-metal-use-makro="m">a</i>',
                           {"enable_data_attributes": True}),
    "data_define_malformed": ('<i data-tal-define="ok 1; 2x 3">a</i>',
                              {"enable_data_attributes": True}),
    "data_bad_expression": ('<i data-tal-content="a +">a</i>',
                            {"enable_data_attributes": True}),
    "repeat_no_expr": '<i tal:repeat="x">a</i>',
    "repeat_two_parts": '<i tal:repeat="x (1,); y (2,)">a</i>',
    "repeat_tuple_unclosed": '<i tal:repeat="(a, b ((1, 2),)">a</i>',
    "code_block_syntax": '<?python x = ( ?>',
    "code_block_indent": '<?python\n  x = 1\n y = 2 ?>',
    "fill_slot_empty": '<div metal:use-macro="m"><i metal:fill-slot="">a</i>'
                       '</div>',
    "tal_element_bad_attr": '<tal:block bogus="1">a</tal:block>',
    "name_with_translate": '<i i18n:translate="" i18n:name="x">a</i>',
    "empty_condition": '<i tal:condition="">a</i>',
    "empty_target": '<i i18n:target="">a</i>',
    "define_tuple_nested": '<i tal:define="((a, b), c) ((1, 2), 3)">a</i>',
    "unknown_tal": '<i tal:bogus="1">a</i>',
    # the statements of one language are unknown in the two others
    "tal_translate": '<i tal:translate="">a</i>',
    "tal_domain": '<i class="c" tal:domain="d">a</i>',
    "tal_use_macro": '<i tal:use-macro="m">a</i>',
    "tal_fill_slot": '<i tal:fill-slot="s">a</i>',
    "i18n_define": '<i i18n:define="x 1">a</i>',
    "i18n_content": '<i i18n:content="x">a</i>',
    "i18n_define_macro": '<i i18n:define-macro="m">a</i>',
    "metal_content": '<i metal:content="x">a</i>',
    "metal_repeat": '<i metal:repeat="i x">a</i>',
    "metal_translate": '<i metal:translate="">a</i>',
    "tal_element_translate": '<tal:block translate="">a</tal:block>',
    "metal_element_repeat": '<metal:block repeat="i (1,)">a</metal:block>',
    "i18n_element_content": '<i18n:block content="x">a</i18n:block>',
    "unknown_metal": '<i metal:bogus="1">a</i>',
    "unknown_i18n": '<i i18n:bogus="1">a</i>',
    "content_and_replace": '<i tal:content="a" tal:replace="b">a</i>',
    "case_without_switch": '<i tal:case="1">a</i>',
    "fill_without_use": '<i metal:fill-slot="x">a</i>',
    # ... also when the element itself uses / extends a macro (a filler
    # belongs to a macro used by an ANCESTOR)
    "fill_on_use_element": '<i metal:use-macro="m" metal:fill-slot="x">a</i>',
    "fill_on_use_element_2": '<i metal:fill-slot="x" metal:use-macro="m">a'
                             '</i>',
    "fill_on_extend_element": '<i metal:define-macro="n" metal:extend-macro='
                              '"m" metal:fill-slot="x">a</i>',
    "fill_after_closed_use": '<b metal:use-macro="m">u</b><i metal:use-macro='
                             '"m" metal:fill-slot="x">a</i>',
    "fill_after_extend": '<b metal:extend-macro="m">e</b>'
                         '<i metal:fill-slot="x">a</i>',
    "fill_after_use": '<b metal:use-macro="m">e</b>'
                      '<i metal:fill-slot="x">a</i>',
    "macro_and_fill": '<div metal:use-macro="m"><i metal:define-macro="n" '
                      'metal:fill-slot="s">a</i></div>',
    "bad_interpolation": '<i meta:interpolation="maybe">a</i>',
    "duplicate_attribute": '<i tal:attributes="a 1; a 2">a</i>',
    "i18n_attr_comma": '<i i18n:attributes="a,b">a</i>',
    "i18n_attr_spec": '<i i18n:attributes="a b c">a</i>',
    "i18n_attr_twice": '<i i18n:attributes="a x; a y">a</i>',
    "name_outside": '<i i18n:name="n">a</i>',
    "name_twice": '<p i18n:translate=""><i i18n:name="n">a</i>'
                  '<i i18n:name="n">b</i></p>',
    "comment_hyphens": "<!-- a -- b -->",
    "end_without_start": "</nostart>",
    # an end tag without a name
    "end_tag_blank": "<i>a</ i>",
    "end_tag_nameless": "<i>a</></i>",
    "end_tag_in_text": "<i>1 </ 2</i>",
    "reserved_econtext": '<i tal:define="econtext 1">a</i>',
    "reserved_dunder": '<i tal:define="ok 1; __x 2">a</i>',
    "reserved_repeat": '<i tal:repeat="rcontext (1, 2)">a</i>',
    "reserved_tuple": '<i tal:define="(a, econtext) (1, 2)">a</i>',
    "reserved_tuple_repeat": '<i tal:repeat="(a, __b) ((1, 2),)">a</i>',
    "reserved_global": '<i tal:define="global __x 1">a</i>',
    "reserved_global_2nd": '<i tal:define="a 1; global econtext 2">a</i>',
    "reserved_global_tuple": '<i tal:define="global (a, __b) (1, 2)">a</i>',
    "reserved_global_repeat": '<i tal:repeat="global rcontext (1, 2)">a</i>',
    "reserved_local_kw": '<i tal:define="local rcontext 1">a</i>',
    "attributes_multiline": '<i tal:attributes="a 1;\n   b 2;\n   a 3">a</i>',
    "script": '<i tal:script="x">a</i>',
    "attributes_on_ns": '<tal:block attributes="a 1">a</tal:block>',
    "content_with_msgid": '<i tal:content="x" i18n:translate="id">a</i>',
    "unknown_type": '<i tal:content="nosuchtype: x">a</i>',
    "unknown_type_2nd": '<i tal:define="a 1; b nosuch:2">a</i>',
    "empty_content": '<i tal:content="">a</i>',
    "hyphen_name": '<i tal:define="x-y 1">a</i>',
    "multiline": '<i class="c"\n   tal:define="ok 1;\n       2x 3">a</i>',
}


class StmtErrors(Part):
    name = "stmt"
    examples = {"quick": 700, "thorough": 20000}

    def strategy(self, tier):
        @st.composite
        def c(draw):
            base = draw(tstrat.templates(depth=2, max_elems=6, rec=False))
            return {"nodes": base["nodes"],
                    "kind": draw(st.sampled_from(sorted(SNIPPETS))),
                    "pos": draw(st.integers(0, 3)),
                    "lead": draw(st.sampled_from(["", "\n", "é日本\n  ",
                                                  "x &amp; y "])),
                    "eol": draw(st.sampled_from(["\n", "\n", "\r\n",
                                                 "\r"]))}
        return c()

    def build(self, case):
        nodes = copy.deepcopy(case["nodes"])
        snippet = SNIPPETS[case["kind"]]
        if isinstance(snippet, tuple):
            snippet = snippet[0]
        i = case["pos"] % (len(nodes) + 1)
        nodes.insert(i, ["raw", case["lead"]])
        nodes.insert(i + 1, ["raw", snippet])
        out = tmodel.serialize(nodes)
        src = out.text()
        site = [s for s in out.sites if s["kind"] == "raw" and
                s["text"] == snippet][0]
        return src, site["offset"], snippet

    def nontrivial(self, case):
        src, off, snip = self.build(case)
        return off > 0 and ("\n" in src[:off] or any(
            ord(c) > 127 for c in src[:off]))

    def labels(self, case):
        yield "kind_" + case["kind"]

    def sample(self, case):
        src, off, snip = self.build(case)
        return {"source": src, "snippet_offset": off}

    def oracle(self, case):
        from chameleon import PageTemplate
        from chameleon.exc import TemplateError
        src, soff, snip = self.build(case)
        detail = {"source": src, "kind": case["kind"], "snippet": snip,
                  "snippet_offset": soff}
        cfg = SNIPPETS[case["kind"]][1] if isinstance(
            SNIPPETS[case["kind"]], tuple) else {}
        o = run(PageTemplate, src.replace("\n", case.get("eol", "\n")),
                **cfg)
        if o.ok:
            return Mismatch("stmt:accepted (%s)" % case["kind"], detail)
        if not isinstance(o.exc, TemplateError):
            return Mismatch("stmt:raises %s (%s)" % (o.exc_name,
                                                     case["kind"]),
                            dict(detail, outcome=o.brief()))
        tok = str(o.exc.token)
        off = o.exc.offset
        detail.update(token=tok, offset=off, location=list(o.exc.location))
        if not (soff <= off and off + len(tok) <= soff + len(snip)):
            return Mismatch("stmt:token outside the faulty construct (%s)" %
                            case["kind"], detail)
        why = check_location(src, o.exc)
        if why:
            return Mismatch("stmt:%s (%s)" % (why, case["kind"]), detail)
        return None

    def known(self, case, mismatch):
        if case["kind"] == "hyphen_name" and \
                mismatch.bucket.startswith("stmt:raises SyntaxError"):
            return "K9"
        return None


class ValidAccepted(Part):
    """The converse: a template without a language error is never rejected.
    (Every valid template generated by C01/C03/C04/C07/C09/C10 asserts the
    same; this part concentrates on constructs that are easily mistaken for
    errors: several attribute dictionaries, case variants of one attribute
    name, tal: elements, foreign and repeated attributes, TALES prefixes.)"""
    name = "valid"
    examples = {"quick": 500, "thorough": 15000}

    def strategy(self, tier):
        return tstrat.templates(depth=2, max_elems=8, dict_attrs=True,
                                tales=True, ns_elems=True, foreign=True,
                                dup_attrs=True, onerror=2)

    def nontrivial(self, case):
        src = tmodel.serialize(case["nodes"]).text()
        return "tal:attributes" in src or "tal:block" in src

    def sample(self, case):
        return {"source": tmodel.serialize(case["nodes"]).text()}

    def oracle(self, case):
        from chameleon import PageTemplate
        src = '<r xmlns:foo="urn:foo">' + tmodel.serialize(
            case["nodes"]).text() + "</r>"
        for strict in (True, False):
            o = run(PageTemplate, src, strict=strict)
            if not o.ok:
                return Mismatch("valid:rejected with " + o.exc_name, {
                    "source": src, "strict": strict, "outcome": o.brief()})
        return None


CHECK = Check(
    "C11", "fault_enumeration",
    rule=("expr: valid generated templates x 11 shapes of invalid Python "
          "planted at a random expression site (or as a later pipe "
          "alternative), optionally behind leading lines / non-ASCII text; "
          "non-trivial = the fault is preceded in its own attribute or text "
          "node by a separator, escape, entity, newline or non-ASCII text; "
          "stmt: %d catalogue snippets inserted at a random top-level "
          "position of a valid template; non-trivial = the snippet is "
          "preceded by a newline or non-ASCII text; distinct by sha1"
          % len(SNIPPETS)),
    parts=[ExprErrors(), StmtErrors(), ValidAccepted()],
    assumptions=[
        "which substring of a faulty statement a statement-level error "
        "points at is the implementation's choice: only 'inside the faulty "
        "construct' is asserted",
        "the brace-truncated head of a ${...} candidate is accepted as token "
        "(the candidate search tries the longest candidate first)",
        "K12 (positions after entities) is attributed only when the reported "
        "offset equals the true offset minus the number of characters the "
        "preceding entities lose by decoding",
        "K9 (hyphenated define name) is attributed by its snippet",
    ],
    technique="fault planting with generator-known coordinates + "
              "slice/line/column consistency oracle",
)
