"""C17 - Byte input is decoded by BOM / XML declaration / meta charset,
then acts as str.

Only self-consistent documents are generated: the bytes are produced with
the encoding that the document announces (BOM, declaration, meta) or with
the template's default encoding when it announces nothing.

Oracles
  differential   Template(bytes).render(**b) == Template(str).render(**b)
                 (PageTemplate and PageTemplateFile)
  absolute       no U+FEFF in the output; XML mode iff the document (after the
                 BOM) starts with '<?xml': content_type, boolean attributes
                 (checked="checked" vs checked="True") and CR handling are
                 checked against that decision, not against the other variant;
                 content_encoding names a codec that decodes the bytes to the
                 document.
"""
from __future__ import annotations

import codecs
import os
import shutil
import tempfile

from hypothesis import strategies as st

from vlib.cham import run
from vlib.fuzz import FuzzStage
from vlib.harness import Check, Mismatch, Part

# python codec, names under which a document may announce it, sample text
ENCODINGS = {
    "utf-8": (["utf-8", "UTF-8", "utf8"], ["é", "日本", "Привет", "ß€", "😀"]),
    "latin-1": (["latin-1", "iso-8859-1", "ISO-8859-1", "latin1"],
                # (also C1 control characters: Latin-1 is not windows-1252)
                ["é", "ß", "ñ", "Ã©", "½", "\x85", "a\x91b\x92", "\x9f"]),
    "iso-8859-15": (["iso-8859-15", "ISO-8859-15"], ["é", "€", "ß", "Œ"]),
    "cp1251": (["windows-1251", "cp1251"], ["Привет", "мир", "Ж"]),
    "cp1252": (["windows-1252", "cp1252"], ["é", "€", "“x”", "ß"]),
    "shift_jis": (["Shift_JIS", "shift_jis", "sjis"], ["日本", "語", "テスト"]),
    "koi8-r": (["KOI8-R", "koi8-r"], ["Привет", "мир"]),
    "utf-16-le": (["utf-16", "UTF-16", "utf-16-le"], ["é", "日本", "😀"]),
    "utf-16-be": (["utf-16", "UTF-16", "utf-16-be"], ["é", "日本", "😀"]),
    "utf-32-le": (["utf-32", "utf-32-le"], ["é", "日本", "😀"]),
    "utf-32-be": (["utf-32", "utf-32-be"], ["é", "日本", "😀"]),
}
BOMS = {
    "utf-8": codecs.BOM_UTF8, "utf-16-le": codecs.BOM_UTF16_LE,
    "utf-16-be": codecs.BOM_UTF16_BE, "utf-32-le": codecs.BOM_UTF32_LE,
    "utf-32-be": codecs.BOM_UTF32_BE,
}
WIDE = ("utf-16-le", "utf-16-be", "utf-32-le", "utf-32-be")
ASCII_COMPAT = [e for e in ENCODINGS if e not in WIDE]


@st.composite
def cases(draw):
    enc = draw(st.sampled_from(sorted(ENCODINGS) + ["utf-8"] * 4))
    names, texts = ENCODINGS[enc]
    wide = enc in WIDE
    bom = draw(st.booleans()) if enc in BOMS else False
    # how the document announces its encoding
    if wide:
        # without BOM a wide encoding is only detectable through '<?xml'
        xml = True if not bom else draw(st.booleans())
        announce = "bom" if bom else "prefix"
    elif bom:
        xml = draw(st.booleans())
        announce = "bom"
    else:
        announce = draw(st.sampled_from(["decl", "meta", "default",
                                         "default"]))
        xml = True if announce == "decl" else draw(st.booleans())
        if announce == "meta":
            xml = False
    default_encoding = None
    if announce == "default":
        # the bytes are in the template's default encoding
        if enc != "utf-8":
            default_encoding = enc
    q = draw(st.sampled_from(['"', "'"]))
    sp = draw(st.sampled_from(["", " ", "  "]))
    decl = None
    if xml:
        decl_enc = None
        if announce == "decl" or (announce in ("bom", "prefix") and
                                  draw(st.booleans())):
            decl_enc = draw(st.sampled_from(names))
        decl = "<?xml version=%s1.0%s" % (q, q)
        if decl_enc:
            decl += " encoding%s=%s%s%s%s" % (sp, sp, q, decl_enc, q)
        if draw(st.booleans()):
            decl += " standalone=%syes%s" % (q, q)
        decl += draw(st.sampled_from(["", " "])) + "?>"
    meta = None
    meta_order = "http-equiv-first"
    if announce == "meta" or (not xml and announce in ("bom", "default")
                              and default_encoding is None
                              and draw(st.integers(0, 2)) == 0) or (
            # an XML document (XHTML) that ALSO carries a meta element
            # naming the encoding it is in anyway: it stays XML
            xml and enc == "utf-8" and default_encoding is None and
            draw(st.integers(0, 2)) == 0):
        mq = draw(st.sampled_from(['"', "'", '"', "'", ""]))
        mtype = draw(st.sampled_from(["text/html", "text/html",
                                      "application/xhtml+xml", "text/xml"]))
        cs = draw(st.sampled_from(names))
        he = draw(st.sampled_from(["http-equiv", "HTTP-EQUIV", "Http-Equiv"]))
        ct = draw(st.sampled_from(["Content-Type", "content-type",
                                   "CONTENT-TYPE"]))
        close = draw(st.sampled_from([">", "/>", " />", " >"]))
        msp = draw(st.sampled_from(["", " "]))
        if not mq:
            # unquoted attribute values: no white space inside the value
            msp = ""
        a1 = "%s=%s%s%s" % (he, mq, ct, mq)
        a2 = "content=%s%s;%scharset=%s%s" % (mq, mtype, msp, cs, mq)
        if draw(st.integers(0, 2)) == 0:
            meta_order = "content-first"
            a1, a2 = a2, a1
        meta = "<meta %s %s%s" % (a1, a2, close)
    # announcements of lower priority that name ANOTHER encoding: they
    # must lose (order: byte-order mark, XML declaration, meta, default)
    lies = []
    others = [e for e in ASCII_COMPAT if e != enc]
    if announce == "bom" and not wide and decl and "encoding" in decl and \
            draw(st.integers(0, 3)) > 0:
        other = draw(st.sampled_from(others))
        name = draw(st.sampled_from(ENCODINGS[other][0]))
        decl = decl.replace(decl_enc, name)
        lies.append("decl")
    if announce in ("bom", "decl") and not wide and meta is None and \
            draw(st.integers(0, 3)) == 0:
        other = draw(st.sampled_from(others))
        meta = '<meta http-equiv="Content-Type" content="text/html; ' \
            'charset=%s" />' % draw(st.sampled_from(ENCODINGS[other][0]))
        lies.append("meta")
    if announce in ("bom", "decl", "meta", "prefix") and \
            default_encoding is None and draw(st.integers(0, 3)) == 0:
        default_encoding = draw(st.sampled_from(others))
        lies.append("default")
    # white space in front of everything: the document does not START with
    # an XML declaration then (only where the declaration is not what tells
    # the encoding)
    lead = ""
    if announce in ("meta", "default") or (announce == "bom" and not wide
                                           and "decl" not in lies):
        lead = draw(st.sampled_from(["", "", "", "\n", " ", "\r\n\t"]))
    nl = draw(st.sampled_from(["\n", "\r\n", "\r"]))
    body_bits = draw(st.lists(st.sampled_from(
        texts + ["a", "x y", "&amp;", "<b>b</b>", "<i title='t'>i</i>",
                 "${v}", "${v}!", nl, "  ",
                 # text that looks like an encoding declaration but is not
                 '<i encoding="latin-1">e</i>', " encoding='utf-16' ",
                 '<meta name="x" content="y">', "charset=koi8-r",
                 # a meta element that is commented out
                 '<!-- <meta http-equiv="Content-Type" content="text/html; '
                 'charset=koi8-r" /> -->']),
        min_size=1, max_size=8))
    return {
        "encoding": enc, "bom": bom, "announce": announce, "xml": xml,
        "decl": decl, "meta": meta, "meta_order": meta_order,
        "default_encoding": default_encoding, "nl": nl,
        "body": body_bits, "value": draw(st.sampled_from(texts + ["<v>"])),
        "flag": draw(st.booleans()),
        # the boolean attributes are configured explicitly (which must not
        # change anything else about how the document is treated)
        "explicit_bool": draw(st.integers(0, 3)) == 0,
        "cls": draw(st.sampled_from(["str", "str", "file"])),
        "lead": lead, "lies": lies,
        # an old meta element left behind in a comment (before the real
        # one, if there is one) names another encoding
        "stale_meta": draw(st.sampled_from([None, None, None] + [
            ENCODINGS[e][0][0] for e in others])) if not wide else None,
        # a long comment in the head pushes the meta element far into the
        # document
        "pad": draw(st.sampled_from([0, 0, 0, 900, 1100, 5000])),
    }


def document(case):
    nl = case["nl"]
    parts = [case.get("lead", "")]
    if case["decl"]:
        parts.append(case["decl"] + nl)
    parts.append("<html><head>")
    if case.get("stale_meta"):
        parts.append('<!-- <meta http-equiv="content-type" content="text/html'
                     '; charset=%s"> -->' % case["stale_meta"])
    if case.get("pad"):
        parts.append("<!-- " + "licence text " * (case["pad"] // 13) + "-->")
    if case["meta"]:
        parts.append(case["meta"])
    parts.append("<title>t</title></head>" + nl + "<body>")
    parts.append('<input type="checkbox" tal:attributes="checked flag" />')
    parts.append("".join(case["body"]))
    parts.append(nl + "</body></html>" + nl)
    return "".join(parts)


class Bytes(Part):
    name = "bytes"
    examples = {"quick": 2500, "thorough": 60000}
    floors = {"bom": 0.1, "xml": 0.3, "meta": 0.1, "non_utf8": 0.3}

    def strategy(self, tier):
        return cases()

    def known(self, case, mismatch):
        return "K17" if mismatch.bucket == "bytes:K17" else None

    def nontrivial(self, case):
        doc = document(case)
        return (case["encoding"] != "utf-8" or case["bom"]) and \
            any(ord(c) > 127 for c in doc + case["value"])

    def labels(self, case):
        if case["bom"]:
            yield "bom"
        yield "xml" if case["xml"] else "html"
        if case["meta"]:
            yield "meta"
        if case["encoding"] != "utf-8":
            yield "non_utf8"
        yield "announce_" + case["announce"]
        yield "enc_" + case["encoding"]
        if case["meta_order"] == "content-first":
            yield "meta_content_first"
        if case["meta"] and case["xml"]:
            yield "xml_with_meta"
        for l in case.get("lies", ()):
            yield "lie_" + l
        if case.get("lead"):
            yield "leading_space"
        if case["meta"] and "=text" in case["meta"].replace(
                "=application", "=text"):
            yield "meta_unquoted"

    def sample(self, case):
        return {"document": document(case), "encoding": case["encoding"],
                "bom": case["bom"], "announce": case["announce"],
                "default_encoding": case["default_encoding"]}

    def setup_shard(self, tier, shard):
        self.tmp = tempfile.mkdtemp(prefix="c17-")
        self.n = 0

    def teardown_shard(self):
        shutil.rmtree(getattr(self, "tmp", ""), ignore_errors=True)

    def oracle(self, case):
        from chameleon import PageTemplate, PageTemplateFile
        doc = document(case)
        enc = case["encoding"]
        data = doc.encode(enc)
        if case["bom"]:
            data = BOMS[enc] + data
        cfg = {}
        if case.get("explicit_bool"):
            cfg["boolean_attributes"] = {"checked", "disabled"}
        if case["default_encoding"]:
            cfg["default_encoding"] = case["default_encoding"]
        env = {"v": case["value"], "flag": case["flag"]}
        info = {"document": doc, "encoding": enc, "bom": case["bom"],
                "announce": case["announce"],
                "config": {k: (sorted(v) if isinstance(v, set) else v)
                           for k, v in cfg.items()}}

        ref = run(PageTemplate, doc, **cfg)
        if not ref.ok:
            return Mismatch("bytes:str variant raises " + ref.exc_name,
                            dict(info, outcome=ref.brief()))
        ref_t = ref.value
        ref_out = run(ref_t.render, **env)
        if not ref_out.ok:
            return Mismatch("bytes:str render raises " + ref_out.exc_name,
                            dict(info, outcome=ref_out.brief()))
        if case["cls"] == "file":
            tmp = getattr(self, "tmp", None) or tempfile.gettempdir()
            self.n = getattr(self, "n", 0) + 1
            path = os.path.join(tmp, "d%d.pt" % self.n)
            with open(path, "wb") as f:
                f.write(data)

            def build():
                t = PageTemplateFile(path, **cfg)
                t.cook_check()
                return t
            o = run(build)
        else:
            o = run(PageTemplate, data, **cfg)
        if not o.ok:
            return Mismatch("bytes:construct raises " + o.exc_name,
                            dict(info, outcome=o.brief()))
        t = o.value
        out = run(t.render, **env)
        if case["cls"] == "file":
            try:
                os.unlink(path)
            except OSError:
                pass
        # K17: a meta element whose media type is text/xml makes a document
        # WITHOUT XML declaration an XML document (as str always, as bytes
        # unless a byte-order mark ends the sniffing earlier)
        if case.get("meta") and "text/xml" in case["meta"] and not (
                case["decl"] is not None and not case.get("lead")) and \
                "text/xml" in (t.content_type, ref_t.content_type):
            return Mismatch("bytes:K17", dict(
                info, content_type=t.content_type,
                content_type_str=ref_t.content_type))
        if not out.ok:
            return Mismatch("bytes:render raises " + out.exc_name,
                            dict(info, outcome=out.brief()))
        if "﻿" in out.value:
            return Mismatch("bytes:BOM in output", dict(info, got=out.value))
        if out.value != ref_out.value:
            return Mismatch("bytes:differs from str", dict(
                info, got=out.value, expected=ref_out.value))
        # absolute expectations about the mode
        is_xml = case["decl"] is not None and not case.get("lead")
        want_type = "text/xml" if is_xml else None
        if is_xml:
            if t.content_type != "text/xml":
                return Mismatch("bytes:content_type", dict(
                    info, got=t.content_type, expected="text/xml"))
        else:
            if t.content_type == "text/xml":
                return Mismatch("bytes:content_type", dict(
                    info, got=t.content_type, expected="not text/xml"))
        # (which non-XML type is reported - the meta element's or the default
        # - is not part of the property: only the XML/HTML decision is)
        if (t.content_type == "text/xml") != (ref_t.content_type ==
                                              "text/xml"):
            return Mismatch("bytes:content_type differs from str", dict(
                info, got=t.content_type, expected=ref_t.content_type))
        checked = 'checked="checked"' in out.value
        raw_true = 'checked="True"' in out.value
        if case["flag"] and case.get("explicit_bool"):
            # (a configured set applies to XML documents, too)
            if not checked:
                return Mismatch("bytes:configured boolean attribute",
                                dict(info, got=out.value))
        elif case["flag"]:
            if is_xml and not raw_true:
                return Mismatch("bytes:boolean attribute in XML mode",
                                dict(info, got=out.value))
            if not is_xml and not checked:
                return Mismatch("bytes:boolean attribute in HTML mode",
                                dict(info, got=out.value))
        if "\r" in doc:
            if is_xml and "\r" not in out.value:
                return Mismatch("bytes:CR rewritten in XML mode",
                                dict(info, got=out.value))
            if not is_xml and "\r" in out.value:
                return Mismatch("bytes:CR kept in HTML mode",
                                dict(info, got=out.value))
        # content_encoding must name a codec that decodes the input
        ce = t.content_encoding
        try:
            dec = data.decode(ce)
        except Exception as e:  # noqa: BLE001
            return Mismatch("bytes:content_encoding unusable", dict(
                info, got=ce, error=type(e).__name__))
        if dec.lstrip("﻿") != doc:
            return Mismatch("bytes:content_encoding wrong", dict(
                info, got=ce))
        return None



CHECK = Check(
    "C17", "exploration",
    rule=("self-consistent documents x 11 encodings x BOM yes/no x XML "
          "declaration (absent / without / with encoding, either quote, "
          "spacing) x meta content-type (quotes, case, order, self-closing) x "
          "default_encoding x PageTemplate(bytes)/PageTemplateFile; "
          "non-trivial = non-UTF-8 encoding or BOM, with at least one "
          "non-ASCII character; distinct by sha1 of the case"),
    parts=[Bytes()],
    stages=[FuzzStage("checks.c17", "bytes", 20000)],
    assumptions=[
        "the announcement of highest priority is the truth (the bytes are in "
        "that encoding); announcements of lower priority may name another "
        "encoding and must lose",
        "an XML declaration without encoding combined with a meta charset "
        "is not generated (XML says UTF-8, the property's order says meta: "
        "ambiguous)",
        "UTF-16/32 without BOM is only generated with an XML declaration "
        "(otherwise undetectable by design)",
    ],
    technique="Hypothesis configuration-product generation + differential "
              "(bytes vs str) and absolute mode oracles",
)
