"""C06 - ${...} interpolation is delimited correctly and $$ escapes it.

A case is a small document made of *sites* (element text, double- and
single-quoted attribute values, comments, <!--? comments, CDATA sections),
possibly nested in elements that switch interpolation on/off with
meta:interpolation (depth <= 3), rendered with comment interpolation
enabled or disabled.  Every site is a list of parts: literal atoms rich in
'$', '$$', '{', '}', quotes and entities, and ${expr} parts whose
expressions are rich in braces, quotes and '$' (vlib/pyexprs.py).  Every
expression is wrapped in rec('tN', ...) so that evaluation is observable.

The generator knows the parts, so the expected output is constructed:
literal atoms with '$$' -> '$', values converted and escaped for the
context; where interpolation is off the site's source text is expected
literally and its recorder tags must be absent from the call log.
"""
from __future__ import annotations

from hypothesis import strategies as st

from vlib import pyexprs, tmodel, values
from vlib.cham import run
from vlib.fuzz import FuzzStage
from vlib.harness import Check, Mismatch, Part

LIT_COMMON = (list("abcXY 01") + ["$$", "$$$$", "$", "{", "}", "{}", "}{",
              "{x}", "&amp;", "&#38;", "&", "é", "日本", ";", "=", "(", ")",
              "%s", "\\", "\n", "  ",
              # a dollar sign that is NOT adjacent to what follows it
              "$\n", "$$$\n", "$ ", "$\t", "%", "%%", "%d", "%(a)s"])
LIT = {
    "text": LIT_COMMON + ['"', "'", ">", "&lt;", "&nbsp;"],
    "dq": LIT_COMMON + ["'", ">", "&quot;", "&lt;"],
    "sq": LIT_COMMON + ['"', ">", "&lt;"],
    "comment": LIT_COMMON + ['"', "'", "<", "> ", "<b>", "!", "?", "!x",
                             "- "],
    "cdata": LIT_COMMON + ['"', "'", "<", ">", "<b>", "]"],
}


def _odd_trailing(s):
    n = len(s) - len(s.rstrip("$"))
    return n % 2 == 1


ENT_STYLES = {
    0: {"&": "&amp;", "<": "&lt;", '"': "&quot;", "'": "&#39;"},
    1: {"&": "&#38;", "<": "&#60;", '"': "&#34;", "'": "&#39;"},
    2: {"&": "&#x26;", "<": "&#x3c;", '"': "&#x22;", "'": "&#x27;"},
    3: {"&": "&#x26;", "<": "&#x3C;", '"': "&#X22;".lower(), "'": "&#x27;"},
    4: {"&": "&amp;", "<": "&lt;", '"': "&quot;", "'": "&apos;"},
    # hexadecimal references with a capital X; letters as named entities
    # (one of them starts with an x)
    5: {"&": "&#X26;", "<": "&#X3C;", '"': "&#X22;", "'": "&#X27;",
        "\u03be": "&xi;", "\u039e": "&Xi;", "\u00e9": "&eacute;"},
}
STYLE = {"n": 0}


def encode_expr(src, ctx):
    """Write expression source the way the context requires (character
    entities: named, decimal or hexadecimal - they are all decoded before
    evaluation)."""
    e = ENT_STYLES[STYLE["n"]]
    out = src.replace("&", "\0")
    if ctx in ("text", "dq", "sq"):
        out = out.replace("<", e["<"])
    if ctx == "dq":
        out = out.replace('"', e['"'])
    if ctx == "sq":
        out = out.replace("'", e["'"])
    out = out.replace("\0", e["&"]).replace("\2", "&")
    if ctx in ("text", "dq", "sq"):
        for ch in ("\u03be", "\u039e", "\u00e9"):
            if ch in e:
                out = out.replace(ch, e[ch])
    return out


@st.composite
def site(draw, counter):
    ctx = draw(st.sampled_from(["text", "text", "dq", "sq", "comment",
                                "comment?", "cdata"]))
    base = "comment" if ctx == "comment?" else ctx
    excl = ["newline"] if base in ("dq", "sq") else []
    if base == "comment":
        excl.append("newline")
    parts = []
    for _ in range(draw(st.integers(1, 6))):
        if draw(st.integers(0, 2)) == 0:
            e = draw(pyexprs.exprs(exclude=excl))
            counter[0] += 1
            parts.append(["expr", {"src": e["src"], "tag": "t%d" % counter[0],
                                   "tags": e["tags"]}])
        else:
            parts.append(["lit", draw(st.sampled_from(LIT[base]))])
    # different expressions with look-alike texts behind a first one
    if draw(st.integers(0, 6)) == 0:
        tw = draw(pyexprs.twins(exclude=excl))
        for e in [draw(pyexprs.exprs(exclude=excl))] + tw:
            counter[0] += 1
            parts.append(["expr", {"src": e["src"],
                                   "tag": "t%d" % counter[0],
                                   "tags": e["tags"]}])
            parts.append(["lit", "|"])
    # the very same expression text a second time in one site: it is
    # evaluated again (the recorder shows its tag twice)
    if draw(st.integers(0, 4)) == 0:
        idx = [i for i, p_ in enumerate(parts) if p_[0] == "expr"]
        if idx:
            i = draw(st.sampled_from(idx))
            j = draw(st.integers(i + 1, len(parts)))
            parts.insert(j, ["expr", dict(parts[i][1])])
    # escaped interpolations ($${...} stands for the text ${...}) at the
    # very start of the site and directly behind an interpolation
    esc = ["$${x}", "$$$${a}", "$${a}$${b}", "$${", "$$"]
    if draw(st.integers(0, 5)) == 0:
        parts.insert(0, ["lit", draw(st.sampled_from(esc))])
    if draw(st.integers(0, 5)) == 0:
        idx = [i for i, p_ in enumerate(parts) if p_[0] == "expr"]
        if idx:
            parts.insert(draw(st.sampled_from(idx)) + 1,
                         ["lit", draw(st.sampled_from(esc))])
    return {"ctx": ctx, "parts": parts}


@st.composite
def items(draw, depth, counter):
    out = []
    for _ in range(draw(st.integers(1, 3))):
        if depth > 0 and draw(st.integers(0, 2)) == 0:
            counter[1] += 1
            out.append({"scope": draw(st.sampled_from(
                ["on", "off", "true", "false", None])),
                # what else the element between switch and site is
                "wrap": draw(st.sampled_from(
                    [None, None, None, "macro", "fill", "cond", "define",
                     "block", "repeat1"])),
                "id": counter[1],
                "items": draw(items(depth - 1, counter))})
        else:
            out.append(draw(site(counter)))
    return out


@st.composite
def cases(draw):
    counter = [0, 0]
    sc = values.scalars()
    return {
        "items": draw(items(3, counter)),
        "comment_interpolation": draw(st.sampled_from([True, True, False])),
        "entity_style": draw(st.integers(0, 5)),
        "bindings": {"a": draw(sc), "b": draw(sc)},
    }


def wrap(e):
    return "rec('%s', %s)" % (e["tag"], e["src"].strip())


def site_source(s):
    """(source text of the site body, i.e. between its delimiters)"""
    base = "comment" if s["ctx"] == "comment?" else s["ctx"]
    src = ""
    for p in s["parts"]:
        piece = p[1] if p[0] == "lit" else "${" + encode_expr(wrap(p[1]),
                                                             base) + "}"
        if _odd_trailing(src) and piece[:1] in ("$", "{"):
            src += " "
        src += piece
    if base == "comment":
        while "--" in src:
            src = src.replace("--", "- -")
        if src.endswith("-"):
            src += " "
        if src[:1] in "!?>" and s["ctx"] == "comment":
            src = " " + src
        # (a <!--? comment keeps its own text verbatim, whatever it starts
        # with: only the marker is removed)
    if base == "cdata":
        while "]]>" in src:
            src = src.replace("]]>", "]] >")
    if base == "text" and src.endswith("$"):
        src += " "
    return src


def render_site(s, env, on, comment_on, log, k1=False):
    """Expected output of the site body."""
    base = "comment" if s["ctx"] == "comment?" else s["ctx"]
    src = site_source(s)
    active = on if base in ("text", "comment", "cdata") else True
    if base == "comment" and (not comment_on or s["ctx"] == "comment?"):
        return src                        # verbatim, nothing evaluated
    has_interp = "${" in src
    if not active or not has_interp:
        if base == "text":
            return src.replace("$$", "$")
        if not active:
            return src
        # interpolation is on, but the site holds no ${...}
        return src if k1 else src.replace("$$", "$")
    quote = {"dq": '"', "sq": "'"}.get(base)
    out = ""
    acc = ""
    vals = []
    for p in s["parts"]:
        piece = p[1] if p[0] == "lit" else "${" + encode_expr(wrap(p[1]),
                                                             base) + "}"
        sep = ""
        if _odd_trailing(acc) and piece[:1] in ("$", "{"):
            sep = " "
        acc += sep + piece
        if sep:
            vals.append(sep)
        if p[0] == "lit":
            vals.append(p[1].replace("$$", "$"))
        else:
            log.append(p[1]["tag"])
            v = pyexprs.evaluate(p[1]["src"], env)
            if base == "cdata":
                t, _m = tmodel.to_text(v)
                vals.append(t)
            else:
                vals.append(tmodel.insert_text(v, "text", quote))
    if len(vals) == 1 and vals[0] is None and base in ("dq", "sq"):
        return None       # a lone ${...} that yields nothing: no attribute
    return "".join("" if v is None else v for v in vals)


def set_style(case):
    STYLE["n"] = case.get("entity_style", 0)


def fixups_equal(s):
    """site_source() may have rewritten the literal text ('--', ']]>',
    trailing '$'); such sites are compared only when nothing was rewritten
    (the rewriting is rare and keeps the generator simple)."""
    base = "comment" if s["ctx"] == "comment?" else s["ctx"]
    raw = ""
    for p in s["parts"]:
        piece = p[1] if p[0] == "lit" else "${" + encode_expr(wrap(p[1]),
                                                             base) + "}"
        if _odd_trailing(raw) and piece[:1] in ("$", "{"):
            raw += " "
        raw += piece
    return raw == site_source(s)


def build(case, env, k1=False):
    """Return (source, expected output, expected log)."""
    STYLE["n"] = case.get("entity_style", 0)
    log = []
    comment_on = case["comment_interpolation"]

    def walk(its, on):
        src, exp = "", ""
        for n, it in enumerate(its):
            if "items" in it:
                sc = it["scope"]
                on2 = on if sc is None else sc in ("on", "true")
                attr = "" if sc is None else ' meta:interpolation="%s"' % sc
                s2, e2 = walk(it["items"], on2)
                w = it.get("wrap")
                k = it.get("id", 0)
                if w == "macro":
                    # a macro defined (and rendered) in place
                    attr += ' metal:define-macro="m%d"' % k
                elif w == "cond":
                    attr += ' tal:condition="True"'
                elif w == "define":
                    attr += ' tal:define="w%d 1"' % k
                elif w == "repeat1":
                    attr += ' tal:repeat="w%d (1,)"' % k
                if w == "block":
                    src += "<tal:b" + attr + ">" + s2 + "</tal:b>"
                    exp += e2
                elif w == "fill":
                    # the subtree is a slot filler: it is compiled where it
                    # is written (its switch state is the lexical one)
                    src += ('<div metal:use-macro="lib.macros[\'m\']">'
                            '<div' + attr + ' metal:fill-slot="s">' + s2 +
                            "</div></div>")
                    exp += "<x><div>" + e2 + "</div></x>"
                else:
                    src += "<div" + attr + ">" + s2 + "</div>"
                    exp += "<div>" + e2 + "</div>"
                continue
            body = site_source(it)
            out = render_site(it, env, on, comment_on, log, k1)
            ctx = it["ctx"]
            if ctx == "text":
                src += "<p>" + body + "</p>"
                exp += "<p>" + out + "</p>"
            elif ctx in ("dq", "sq"):
                q = '"' if ctx == "dq" else "'"
                src += "<i x=" + q + body + q + "/>"
                exp += "<i/>" if out is None else \
                    "<i x=" + q + out + q + "/>"
            elif ctx == "comment":
                src += "<!--" + body + "-->"
                exp += "<!--" + out + "-->"
            elif ctx == "comment?":
                src += "<!--?" + body + "-->"
                # (with comment interpolation disabled every comment is
                # reproduced verbatim, marker included)
                exp += ("<!--" if comment_on else "<!--?") + out + "-->"
            else:
                src += "<![CDATA[" + body + "]]>"
                exp += "<![CDATA[" + out + "]]>"
        return src, exp
    src, exp = walk(case["items"], True)
    return "<root>" + src + "</root>", "<root>" + exp + "</root>", log


def all_sites(its):
    for it in its:
        if "items" in it:
            yield from all_sites(it["items"])
        else:
            yield it


class Interp(Part):
    name = "interp"
    examples = {"quick": 2500, "thorough": 80000}
    floors = {"multi": 0.3, "off": 0.1, "brace_expr": 0.3}

    def strategy(self, tier):
        return cases()

    def usable(self, case):
        set_style(case)
        return self._usable(case)

    def _usable(self, case):
        """None-valued whole attributes and rewritten literals are outside
        the constructed expectation; such sites are avoided by re-drawing
        the (rare) case as trivial."""
        return all(fixups_equal(s) for s in all_sites(case["items"]))

    def _stats(self, case):
        n_expr = 0
        brace = False
        dollars = False
        off = False
        for s in all_sites(case["items"]):
            for p in s["parts"]:
                if p[0] == "expr":
                    n_expr += 1
                    if set(p[1]["tags"]) & {"brace", "dollar", "fstr"}:
                        brace = True
                elif "$$" in p[1]:
                    dollars = True

        def has_off(its):
            return any("items" in it and (it["scope"] in ("off", "false")
                                          or has_off(it["items"]))
                       for it in its)
        off = has_off(case["items"]) or not case["comment_interpolation"]
        return n_expr, brace, dollars, off

    def nontrivial(self, case):
        n, brace, dollars, off = self._stats(case)
        return self.usable(case) and (n >= 2 or brace or dollars or off)

    def labels(self, case):
        n, brace, dollars, off = self._stats(case)
        if not self.usable(case):
            yield "unusable"
        if n >= 2:
            yield "multi"
        if brace:
            yield "brace_expr"
        if dollars:
            yield "dollar_dollar"
        if off:
            yield "off"

    def sample(self, case):
        env = values.env(case["bindings"])
        try:
            src, exp, log = build(case, env)
        except Exception as e:  # noqa: BLE001
            return {"error": repr(e)}
        return {"source": src, "expected": exp, "bindings": case["bindings"]}

    def oracle(self, case):
        from chameleon import PageTemplate
        if not self.usable(case):
            return None
        env = values.env(case["bindings"])
        try:
            src, exp, elog = build(case, env)
        except Exception as e:  # noqa: BLE001 - python semantics of an expr
            src, exp, elog = build_source_only(case), None, None
            exp_exc = type(e).__name__
        else:
            exp_exc = None
        log = []

        def rec(tag, v=None):
            log.append(tag)
            return v
        env2 = values.env(case["bindings"])
        env2["rec"] = rec
        env2["lib"] = PageTemplate(
            '<x metal:define-macro="m"><y metal:define-slot="s"/></x>')
        o = run(PageTemplate, src,
                enable_comment_interpolation=case["comment_interpolation"])
        detail = {"source": src, "bindings": case["bindings"],
                  "comment_interpolation": case["comment_interpolation"]}
        if not o.ok:
            return Mismatch("interp:compile raises " + o.exc_name,
                            dict(detail, outcome=o.brief()))
        o = run(o.value.render, **env2)
        if exp_exc is not None:
            if not o.ok and o.exc_name == exp_exc:
                return None
            return Mismatch("interp:expected " + exp_exc, dict(
                detail, got=o.brief()))
        if not o.ok:
            return Mismatch("interp:render raises " + o.exc_name,
                            dict(detail, outcome=o.brief(), expected=exp))
        if o.value == exp and log == elog:
            return None
        detail.update(got=o.value, expected=exp, log=log, expected_log=elog)
        if o.value != exp:
            k1src, k1exp, k1log = build(case, values.env(case["bindings"]),
                                        k1=True)
            if o.value == k1exp and log == k1log:
                return Mismatch("interp:K1", detail)
            return Mismatch("interp:output differs", detail)
        return Mismatch("interp:evaluation log differs", detail)

    def known(self, case, mismatch):
        return "K1" if mismatch.bucket == "interp:K1" else None


def build_source_only(case):
    set_style(case)
    class _Env(dict):
        def __missing__(self, k):
            return ""
    log = []

    def walk(its):
        src = ""
        for it in its:
            if "items" in it:
                sc = it["scope"]
                attr = "" if sc is None else ' meta:interpolation="%s"' % sc
                src += "<div" + attr + ">" + walk(it["items"]) + "</div>"
                continue
            body = site_source(it)
            ctx = it["ctx"]
            if ctx == "text":
                src += "<p>" + body + "</p>"
            elif ctx in ("dq", "sq"):
                q = '"' if ctx == "dq" else "'"
                src += "<i x=" + q + body + q + "/>"
            elif ctx == "comment":
                src += "<!--" + body + "-->"
            elif ctx == "comment?":
                src += "<!--?" + body + "-->"
            else:
                src += "<![CDATA[" + body + "]]>"
        return src
    return "<root>" + walk(case["items"]) + "</root>"


CHECK = Check(
    "C06", "exploration",
    rule=("documents of 1..3 sites per level (element text, \"- and '-quoted "
          "attribute values, comments, <!--? comments, CDATA) nested in up to "
          "3 levels of meta:interpolation on/off/true/false switches, with "
          "comment interpolation enabled or disabled; each site is a list of "
          "1..6 parts: literal atoms ($, $$, braces, quotes, entities, "
          "non-ASCII) and ${rec('tN', expr)} with 46 brace/quote/$-rich "
          "expressions; non-trivial = >= 2 interpolations, or an expression "
          "with braces/$/f-string, or a $$ literal, or an off-switch; "
          "distinct by sha1"),
    parts=[Interp()],
    stages=[FuzzStage("checks.c06", "interp", 20000)],
    assumptions=[
        "expression values come from Python eval of the generator's own "
        "source text",
        "literal atoms are assembled so that they cannot be read as the "
        "start of an expression (a separator space is inserted after a "
        "pending lone '$'); cases whose literal text had to be rewritten for "
        "the context ('--' in a comment, ']]>' in CDATA) are skipped",
        "K1 is attributed only when the deviation model (sites without ${ "
        "keep '$$' outside element text) reproduces output and log exactly",
    ],
    technique="Hypothesis part-list generation per interpolation context + "
              "constructed expected output + evaluation log",
)
