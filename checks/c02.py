"""C02 - Inserted values are escaped and cannot change document structure.

A template is a sequence of insertion *sites*, each bracketed by sentinel
text.  For every site the generator knows what surrounds the inserted
region in the output, so the region can be cut out exactly.

Oracles
  structure   metamorphic: the document read by the independent reader has
              the same tags, attribute names and comment/CDATA boundaries as
              the same template rendered with a harmless value of the same
              class
  region      the inserted region holds no raw '<' or '>', no '&' that is not
              the start of an entity, and (in attributes) not the attribute's
              own quote; html.unescape(region) == the value's string form
  opt-outs    structure keyword / structure: expression / __html__ objects /
              CDATA / text-mode templates must deliver the value UNescaped
              (so "escape everything everywhere" is not accepted either)
"""
from __future__ import annotations

import html
import re

from hypothesis import strategies as st

from vlib import reader, values
from vlib.cham import run
from vlib.harness import Check, Mismatch, Part

HOSTILE_ATOMS = ["<", ">", "&", '"', "'", "<b>", "</a>", "&amp;", "&lt;",
                 "]]>", "-->", "<!--", "a&b", "x<y", "'\"", "--",
                 "<script>alert(1)</script>", "é<", "日本&", "&#38;", "&quot;",
                 "<![CDATA[", "?>", "/>", "=", " ", "a", "b c", "\n"]

# kind -> (template snippet with {v} = variable name, output prefix, output
#          suffix, context)   context: text | dq | sq | comment | raw
SITES = {
    "text": ("${{{v}}}", "", "", "text"),
    "text_mid": ("p${{{v}}}q", "p", "q", "text"),
    "content": ('<b tal:content="{v}">x</b>', "<b>", "</b>", "text"),
    "content_text": ('<b tal:content="text {v}">x</b>', "<b>", "</b>", "text"),
    "replace": ('<b tal:replace="{v}">x</b>', "", "", "text"),
    "string_brace": ('<b tal:content="string:p${{{v}}}q">x</b>', "<b>p",
                     "q</b>", "text"),
    "string_name": ('<b tal:content="string:p${v} q">x</b>', "<b>p", " q</b>",
                    "text"),
    "pipe": ('<b tal:content="nosuch | {v}">x</b>', "<b>", "</b>", "text"),
    # a dynamic value that is also offered for translation
    "content_translate": ('<b i18n:translate="" tal:content="{v}">x</b>',
                          "<b>", "</b>", "text"),
    "replace_translate": ('<b i18n:translate="" tal:replace="{v}">x</b>',
                          "", "", "text"),
    "onerror_translate": ('<b i18n:translate="" tal:on-error="{v}">'
                          '${{nosuchname}}</b>', "<b>", "</b>", "text"),
    # string: expressions inside an interpolation (in an element of their
    # own: a string: body accepts anything up to the last brace of the text)
    "interp_string": ('<b>${{string:p${{{v}}}q}}</b>', "<b>p", "q</b>",
                      "text"),
    "interp_string_name": ('<b>${{string:p${v} q}}</b>', "<b>p", " q</b>",
                           "text"),
    "interp_pipe_string": ('<b>${{nosuch | string:p${{{v}}}q}}</b>', "<b>p",
                           "q</b>", "text"),
    "dq_string": ('<a x="${{string:p${{{v}}}q}}"/>', '<a x="p', 'q"/>', "dq"),
    "sq_string": ("<a x='${{string:p${{{v}}}q}}'/>", "<a x='p", "q'/>", "sq"),
    "dq": ('<a x="${{{v}}}"/>', '<a x="', '"/>', "dq"),
    "dq_mid": ('<a x="p${{{v}}}q"/>', '<a x="p', 'q"/>', "dq"),
    "sq": ("<a x='${{{v}}}'/>", "<a x='", "'/>", "sq"),
    "sq_mid": ("<a x='p${{{v}}}q'/>", "<a x='p", "q'/>", "sq"),
    "attrs_dq": ('<a x="s" tal:attributes="x {v}"/>', '<a x="', '"/>', "dq"),
    "attrs_sq": ("<a x='s' tal:attributes=\"x {v}\"/>", "<a x='", "'/>",
                 "sq"),
    "attrs_new": ('<a tal:attributes="x {v}"/>', '<a x="', '"/>', "dq"),
    # static attributes written without quotes / without a value: a computed
    # value stands in quotes
    "attrs_unquoted": ('<a x=s tal:attributes="x {v}">t</a>', '<a x="',
                       '">t</a>', "dq"),
    "attrs_valueless": ('<a x tal:attributes="x {v}">t</a>', '<a x="',
                        '">t</a>', "dq"),
    "interp_unquoted": ('<a x=${{{v}}}>t</a>', '<a x="', '">t</a>', "dq"),
    "attrs_string": ('<a tal:attributes="x string:p${{{v}}}"/>', '<a x="p',
                     '"/>', "dq"),
    "attrs_dict": ('<a tal:attributes="dict(x={v})"/>', '<a x="', '"/>',
                   "dq"),
    "comment": ("<!-- p${{{v}}}q -->", "<!-- p", "q -->", "comment"),
    "i18n_name": ('<p i18n:translate="">A <b i18n:name="n">${{{v}}}</b> Z</p>',
                  "<p>A <b>", "</b> Z</p>", "text"),
    # dynamic text directly inside a translated block (white space of the
    # block is collapsed: compared modulo white space)
    "i18n_text": ('<p i18n:translate="">A ${{{v}}} Z</p>', "<p>A", "Z</p>",
                  "text"),
    "i18n_attr_in_block": ('<p i18n:translate="">A <b title="${{{v}}}">t</b>'
                           ' Z</p>', '<p>A <b title="', '">t</b> Z</p>',
                           "dq"),
    "define": ('<b tal:define="w {v}" tal:content="w">x</b>', "<b>", "</b>",
               "text"),
    "repeat": ('<b tal:repeat="w [{v}]" tal:content="w">x</b>', "<b>", "</b>",
               "text"),
    # opt-outs: the value must arrive unescaped
    "structure": ('<b tal:content="structure {v}">x</b>', "<b>", "</b>",
                  "raw"),
    "structure_replace": ('<b tal:replace="structure {v}">x</b>', "", "",
                          "raw"),
    "structure_expr": ("${{structure: {v}}}", "", "", "raw"),
    "cdata": ("<![CDATA[p${{{v}}}q]]>", "<![CDATA[p", "q]]>", "raw"),
}
HOSTS = [None, None, None, None, "script", "style", "textarea", "title",
         "SCRIPT", "pre", "xmp", "svg", "noscript", "option"]


def site_parts(s):
    """(template snippet, output prefix, output suffix, context)"""
    tpl, pre, suf, ctx = SITES[s["kind"]]
    h = s.get("host")
    if h:
        tpl = "<%s>%s</%s>" % (h, tpl, h)
        pre = "<%s>%s" % (h, pre)
        suf = "%s</%s>" % (suf, h)
    return tpl, pre, suf, ctx


ESCAPED_SITES = [k for k, v in SITES.items() if v[3] != "raw"]
RAW_SITES = [k for k, v in SITES.items() if v[3] == "raw"]

ENTITY_RE = re.compile(r"&(#[0-9]+|#x[0-9a-fA-F]+|[A-Za-z][A-Za-z0-9]*);")


# texts whose only markup-significant character is ONE of these (whatever
# decides "does this value need escaping at all" must know each of them)
SINGLE_CLASS = {
    "'": ["x' onmouseover='alert(1)", "it's", "'", "a 'b' c"],
    '"': ['x" onclick="alert(1)', '"', 'say "hi"'],
    "&": ["a&b", "&", "R&D &c"],
    "<": ["a<b", "<", "1 < 2 <"],
    ">": ["a>b", ">", "-> >"],
}


def hostile_text():
    mixed = st.lists(st.sampled_from(HOSTILE_ATOMS), min_size=1,
                     max_size=5).map("".join)
    single = st.sampled_from(sorted(SINGLE_CLASS)).flatmap(
        lambda c: st.sampled_from(SINGLE_CLASS[c]))
    return st.one_of(mixed, mixed, mixed, single)


@st.composite
def cases(draw):
    # (often one site alone: what one site configures for the whole
    # template must not be what makes another one safe)
    n = draw(st.sampled_from([1, 1, 2, 3, 4, 5, 6]))
    sites = []
    for i in range(n):
        raw = draw(st.integers(0, 5)) == 0
        kind = draw(st.sampled_from(RAW_SITES if raw else ESCAPED_SITES))
        cls = draw(st.sampled_from(
            ["str", "str", "str", "bytes", "strsub", "obj", "int", "float",
             "msg", "html", "intsub", "floatsub", "strsub_str",
             "defobj"]))
        if kind in ("structure", "structure_replace", "structure_expr",
                    "cdata") and cls in ("msg", "html"):
            cls = "str"
        if kind in ("structure", "structure_replace", "structure_expr") and \
                cls in ("bytes", "defobj"):
            # structure of bytes is unspecified; structure takes str() of an
            # object as it is (no translation function in between)
            cls = "str"
        text = draw(hostile_text())
        if kind == "comment":
            # '--' may not occur in a comment in the first place
            text = text.replace("--", "- -")
        sites.append({"kind": kind, "cls": cls, "text": text,
                      "num": draw(st.sampled_from([0, 7, -3, 1.5, 1e3])),
                      # the element the site stands in (escaping does not
                      # depend on its name)
                      "host": draw(st.sampled_from(HOSTS))})
    return {"sites": sites, "mode": "xml",
            # what the translation function answers for unknown messages:
            # the default text, or the message id
            "translator": draw(st.sampled_from(["default", "default",
                                                "msgid"])),
            # implicit translation routes plain ${name} interpolations (and
            # the attribute 'x') through the translation machinery
            "implicit": draw(st.sampled_from([False, False, True]))}


STRING_SITES = ("string_brace", "string_name", "attrs_string",
                "interp_string", "interp_string_name", "interp_pipe_string",
                "dq_string", "sq_string")


def is_raw(site):
    """Does the site deliver the value unescaped (an opt-out)?"""
    if SITES[site["kind"]][3] == "raw":
        return True
    # an __html__ object is markup - unless it was first flattened into a
    # plain string by a string: expression
    return site["cls"] == "html" and site["kind"] not in STRING_SITES


def value_of(site, harmless=False, index=0):
    """(python value, expected string form)"""
    t = "H" if harmless else site["text"]
    c = site["cls"]
    if c == "str":
        return t, t
    if c == "bytes":
        return t.encode("utf-8"), t
    if c == "strsub":
        return values.StrSub(t), t
    if c == "obj":
        return values.Obj(t), t
    if c == "strsub_str":
        return values.StrSubStr("label", t), t
    if c == "defobj":
        # (the translation function answers with the inner object: its
        # string form is what is inserted - escaped)
        return values.DefObj(t), t
    if c == "int":
        n = 1 if harmless else int(site["num"])
        return n, str(n)
    if c == "float":
        n = 1.5 if harmless else float(site["num"])
        return n, str(n)
    if c == "msg":
        return values.Msg("id%d" % index), t
    if c == "html":
        return values.Html(t), t
    if c == "intsub":
        return values.IntSub(3, t), t
    if c == "floatsub":
        return values.FloatSub(2.5, t), t
    raise ValueError(c)


def build(case, harmless=False):
    src = ["<root>"]
    env = {}
    trans = {}
    for i, s in enumerate(case["sites"]):
        tpl = site_parts(s)[0]
        var = "v%d" % i
        val, text = value_of(s, harmless, i)
        env[var] = val
        if s["cls"] == "msg":
            trans[val.msgid] = text
        src.append("[[%d:" % i + tpl.format(v=var) + ":%d]]" % i)
    src.append("</root>")
    return "".join(src), env, trans


def make_translate(trans, mode="default"):
    def translate(msgid, domain=None, mapping=None, context=None,
                  target_language=None, default=None):
        mid = getattr(msgid, "msgid", None)
        if mid is not None and mid in trans:
            return trans[mid]
        if mode == "msgid" and isinstance(msgid, str):
            # the gettext convention: an unknown message is answered with
            # the message id itself (placeholders filled in)
            from chameleon.i18n import simple_translate
            return simple_translate(msgid, mapping=mapping, default=msgid)
        # default behaviour for everything else
        from chameleon.i18n import simple_translate
        return simple_translate(msgid, domain=domain, mapping=mapping,
                                context=context,
                                target_language=target_language,
                                default=default)
    return translate


def render(case, harmless=False):
    from chameleon import PageTemplate
    src, env, trans = build(case, harmless)
    cfg = {}
    if case.get("implicit"):
        cfg = {"implicit_i18n_translate": True,
               "implicit_i18n_attributes": {"x"}}
    o = run(PageTemplate, src, translate=make_translate(
        trans, case.get("translator", "default")), **cfg)
    if not o.ok:
        return src, o
    return src, run(o.value.render, **env)


class Escape(Part):
    name = "escape"
    examples = {"quick": 1500, "thorough": 50000}
    floors = {"needs_escape": 0.5, "optout": 0.1}

    def strategy(self, tier):
        return cases()

    def needs(self, s):
        ctx = SITES[s["kind"]][3]
        if s["cls"] in ("int", "float"):
            return False
        t = s["text"]
        if is_raw(s):
            return any(c in t for c in "<>&")
        chars = "<>&" + ('"' if ctx == "dq" else "'" if ctx == "sq" else "")
        return any(c in t for c in chars)

    def nontrivial(self, case):
        return any(self.needs(s) for s in case["sites"])

    def labels(self, case):
        if any(self.needs(s) and not is_raw(s) for s in case["sites"]):
            yield "needs_escape"
        if any(is_raw(s) for s in case["sites"]):
            yield "optout"
        if case.get("implicit"):
            yield "implicit_i18n"
        for s in case["sites"]:
            yield "site_" + s["kind"]
            yield "cls_" + s["cls"]

    def sample(self, case):
        src, env, trans = build(case)
        return {"source": src, "values": {k: repr(v) for k, v in env.items()}}

    def oracle(self, case):
        src, o = render(case)
        detail = {"source": src,
                  "sites": [(s["kind"], s["cls"], s["text"])
                            for s in case["sites"]]}
        if not o.ok:
            return Mismatch("escape:raises " + o.exc_name,
                            dict(detail, outcome=o.brief()))
        out = o.value
        _, oh = render(case, harmless=True)
        if not oh.ok:
            return Mismatch("escape:harmless variant raises " + oh.exc_name,
                            dict(detail, outcome=oh.brief()))
        # --- per-site regions
        pos = 0
        for i, s in enumerate(case["sites"]):
            kind = s["kind"]
            _tpl, pre, suf, ctx = site_parts(s)
            a, b = "[[%d:" % i, ":%d]]" % i
            ia = out.find(a, pos)
            ib = out.find(b, ia + len(a)) if ia >= 0 else -1
            if ia < 0 or ib < 0:
                return Mismatch("escape:sentinel lost (%s)" % kind,
                                dict(detail, got=out))
            seg = out[ia + len(a):ib]
            pos = ib + len(b)
            if not (seg.startswith(pre) and seg.endswith(suf) and
                    len(seg) >= len(pre) + len(suf)):
                return Mismatch("escape:surroundings changed (%s)" % kind,
                                dict(detail, segment=seg, got=out))
            region = seg[len(pre):len(seg) - len(suf)]
            _val, text = value_of(s, False, i)
            raw_expected = is_raw(s)
            in_block = kind in ("i18n_text", "i18n_attr_in_block")
            ws = lambda t: " ".join(t.split())   # noqa: E731
            if raw_expected:
                if (ws(region) != ws(text)) if in_block else region != text:
                    return Mismatch("escape:opt-out not verbatim (%s/%s)" % (
                        kind, s["cls"]), dict(detail, region=region,
                                              expected=text))
                continue
            if "<" in region or ">" in region:
                return Mismatch("escape:raw angle bracket (%s/%s)" % (
                    kind, s["cls"]), dict(detail, region=region))
            stripped = ENTITY_RE.sub("", region)
            if "&" in stripped:
                return Mismatch("escape:raw ampersand (%s/%s)" % (
                    kind, s["cls"]), dict(detail, region=region))
            q = {"dq": '"', "sq": "'"}.get(ctx)
            if q and q in region:
                return Mismatch("escape:raw quote (%s/%s)" % (
                    kind, s["cls"]), dict(detail, region=region))
            if in_block:
                if ws(html.unescape(region)) != ws(text):
                    return Mismatch("escape:does not round-trip (%s/%s)" % (
                        kind, s["cls"]), dict(detail, region=region,
                                              expected=text))
            elif html.unescape(region) != text:
                return Mismatch("escape:does not round-trip (%s/%s)" % (
                    kind, s["cls"]), dict(detail, region=region,
                                          unescaped=html.unescape(region),
                                          expected=text))
        # --- document structure, against the harmless rendering; sites
        # that legitimately deliver markup are compared with markup removed
        if not any(is_raw(s) for s in case["sites"]):
            st1 = reader.structure(reader.scan(out))
            st2 = reader.structure(reader.scan(oh.value))
            if st1 != st2:
                return Mismatch("escape:document structure changed",
                                dict(detail, got=out, harmless=oh.value))
        return None


class TextMode(Part):
    """Text-mode templates are an opt-out: values arrive unescaped."""
    name = "textmode"
    examples = {"quick": 300, "thorough": 5000}

    def strategy(self, tier):
        return st.fixed_dictionaries({
            "text": hostile_text(),
            "cls": st.sampled_from(["str", "bytes", "strsub", "obj"]),
            "num": st.just(0), "kind": st.just("text"),
        })

    def nontrivial(self, case):
        return any(c in case["text"] for c in "<>&")

    def oracle(self, case):
        from chameleon import PageTextTemplate
        val, text = value_of(case)
        o = run(PageTextTemplate, "a ${v} z")
        if o.ok:
            o = run(o.value.render, v=val)
        if not o.ok:
            return Mismatch("textmode:raises " + o.exc_name, o.brief())
        if o.value != "a " + text + " z":
            return Mismatch("textmode:not verbatim", {
                "got": o.value, "expected": "a " + text + " z"})
        return None


CHECK = Check(
    "C02", "exploration",
    rule=("templates of 1..6 sentinel-bracketed insertion sites drawn from "
          "%d site kinds (element text, tal:content/replace, string: bodies, "
          "pipes, \"/'-quoted attributes with ${}, tal:attributes onto "
          "\"/'-quoted/absent static attributes, attribute dictionaries, "
          "comments, i18n:name blocks, define/repeat indirection, and the "
          "opt-outs structure / structure: / CDATA) x value classes str, "
          "bytes, str subclass, object with hostile str(), int, float, "
          "message object with hostile translation, __html__ object; "
          "non-trivial = some value holds a character that needs escaping at "
          "its site (or is an opt-out holding markup); distinct by sha1"
          % len(SITES)),
    parts=[Escape(), TextMode()],
    assumptions=[
        "html.unescape is the un-escaping oracle",
        "dictionary attribute *keys*, results of the translation function "
        "for static i18n:translate / i18n:attributes, and interpolation in "
        "unquoted attribute values are outside the property's wording",
    ],
    technique="Hypothesis site x value generation + metamorphic structure "
              "comparison (independent reader) + un-escape round trip",
)
