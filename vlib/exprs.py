"""Abstract TALES/Python expressions: source text and reference evaluation.

An expression is a JSON tree.  ``src`` writes it the way a template author
would (plain Python / TALES text, *before* the markup-level escaping that
the serializer applies for the context it is written in); ``ev`` evaluates
it directly on the tree against a model scope.  Evaluation shares no code
with Chameleon (no regex splitting, no AST rewriting).

  ["const", python_literal_source]        1, 'abc', None, True, [], (1, 2)
  ["var", name]
  ["attr", e, name]                       e.name  (attribute, then item)
  ["item", e, literal_source]             e[...]
  ["call", fname, [e...]]                 pure builtins: len str int list ...
  ["binop", op, e1, e2]                   + * == != < and or in
  ["unot", e]                             not e   (python)
  ["cond", c, a, b]                       a if c else b
  ["rec", tag, e]                         rec('tag', e): logs tag, returns e
  ["boom", cls]                           boom('cls'): raises cls
  ["default"] / ["nothing"]
  ["pipe", [e...]]                        a | b | c
  ["prefix", kind, e]                     python: string: not: exists: structure:
  ["string", [part...]]                   body of string:  part = ["lit", s] |
                                          ["v", name] ($name) | ["e", expr]
  ["lambdadef", p, default, body]         (lambda p=default: body)()
  ["invalid", text]                       planted syntax error (C11/C19)
"""
from __future__ import annotations

import ast
import builtins

CAUGHT = (AttributeError, NameError, LookupError, TypeError, ValueError)
EXISTS_CAUGHT = (AttributeError, LookupError, TypeError, NameError)


class CustomError(Exception):
    """Custom exception with two constructor arguments."""

    def __init__(self, a="a", b="b"):
        Exception.__init__(self, a, b)


class StrError(Exception):
    """Custom exception overriding __str__."""

    def __str__(self):
        return "custom-str"


class _Classes(dict):
    """(the library's own RenderError and an application class deriving
    from it are looked up when first asked for: this module does not import
    the code under test)"""

    def __missing__(self, name):
        if name in ("RenderError", "AppRenderError"):
            from chameleon.exc import RenderError

            class AppRenderError(RenderError, LookupError):
                pass
            self["RenderError"] = RenderError
            self["AppRenderError"] = AppRenderError
            return self[name]
        raise KeyError(name)


EXC_CLASSES = _Classes({
    c.__name__: c for c in (
        AttributeError, NameError, LookupError, KeyError, IndexError,
        TypeError, ValueError, UnicodeError, ZeroDivisionError, RuntimeError,
        OSError, AssertionError, StopIteration, CustomError, StrError,
        FileNotFoundError, TimeoutError, RecursionError, ArithmeticError,
        NotImplementedError, KeyboardInterrupt, SystemExit, GeneratorExit,
        Exception, Warning, UserWarning)
})

PURE_BUILTINS = ("len", "str", "int", "list", "sorted", "bool", "repr",
                 "tuple", "max", "min", "sum", "abs")

DEFAULT = type("DefaultMarker", (), {"__repr__": lambda s: "<default>"})()


class ModelUnknown(Exception):
    """The model cannot predict this (the case is skipped and counted)."""


class ExpressionError(Exception):
    """Model-side stand-in (same class *name*) for the error of an invalid
    expression."""


class ModelRaises(Exception):
    """The reference evaluation raises ``exc`` (an exception instance)."""

    def __init__(self, exc):
        Exception.__init__(self, type(exc).__name__)
        self.exc = exc


class Markup(str):
    """Model of the 'structure' wrapper: rendered unescaped."""

    def __html__(self):
        return str(self)


# --------------------------------------------------------------------------
# source text

def src(e, sq="'"):
    """Python/TALES source of expression ``e``; string literals are written
    with quote character ``sq``."""
    k = e[0]
    if k == "const":
        s = e[1]
        if sq != "'" and s[:1] == "'":
            v = ast.literal_eval(s)
            return sq + v.replace("\\", "\\\\").replace(
                sq, "\\" + sq) + sq
        return s
    if k == "var":
        return e[1]
    if k == "default":
        return "default"
    if k == "nothing":
        return "nothing"
    if k == "attr":
        return _paren(e[1], sq) + "." + e[2]
    if k == "item":
        return _paren(e[1], sq) + "[" + src(["const", e[2]], sq) + "]"
    if k == "call":
        return e[1] + "(" + ", ".join(src(a, sq) for a in e[2]) + ")"
    if k == "binop":
        return "(" + src(e[2], sq) + " " + e[1] + " " + src(e[3], sq) + ")"
    if k == "unot":
        return "(not " + src(e[1], sq) + ")"
    if k == "cond":
        return "(" + src(e[2], sq) + " if " + src(e[1], sq) + " else " + \
            src(e[3], sq) + ")"
    if k == "callv":
        return _paren(e[1], sq) + "(" + ", ".join(
            src(a, sq) for a in e[2]) + ")"
    if k == "lambda":
        return "(lambda " + ", ".join(e[1]) + ": " + src(e[2], sq) + ")(" + \
            ", ".join(src(a, sq) for a in e[3]) + ")"
    if k == "lambdadef":
        # ["lambdadef", param, default expr, body]: the default value is
        # evaluated where the lambda is written
        return "(lambda " + e[1] + "=" + src(e[2], sq) + ": " + \
            src(e[3], sq) + ")()"
    if k == "listcomp":
        return "[" + src(e[1], sq) + " for " + e[2] + " in " + \
            src(e[3], sq) + "]"
    if k == "fstr":
        out = []
        for p in e[1]:
            if p[0] == "lit":
                out.append(p[1].replace("{", "{{").replace("}", "}}"))
            else:
                out.append("{" + src(p[1], "'" if sq != "'" else '"') + "}")
        return "f" + sq + "".join(out) + sq
    if k == "rec":
        return "rec(" + sq + e[1] + sq + ", " + src(e[2], sq) + ")"
    if k == "boom":
        if len(e) > 2:
            return "boom(" + sq + e[1] + sq + ", " + sq + e[2] + sq + ")"
        return "boom(" + sq + e[1] + sq + ")"
    if k == "pipe":
        return " | ".join(src(a, sq) for a in e[1])
    if k == "prefix":
        if e[1] == "string":
            return "string:" + src(e[2], sq)
        return e[1] + ": " + src(e[2], sq)
    if k == "string":
        out = []
        for p in e[1]:
            if p[0] == "lit":
                out.append(p[1])
            elif p[0] == "v":
                out.append("$" + p[1])
            else:
                out.append("${" + src(p[1], sq) + "}")
        return "".join(out)
    if k == "invalid":
        return e[1]
    raise ValueError(e)


def _paren(e, sq):
    s = src(e, sq)
    return s if e[0] in ("var", "attr", "item", "call", "rec", "callv") \
        else "(" + s + ")"


def tags(e, out=None):
    """All recorder tags in ``e``."""
    out = [] if out is None else out
    if isinstance(e, list):
        if e and e[0] == "rec":
            out.append(e[1])
        if e and e[0] == "boom" and len(e) > 2:
            out.append(e[2])
        for x in e:
            tags(x, out)
    return out


def has(e, kind):
    if isinstance(e, list):
        if e and e[0] == kind:
            return True
        return any(has(x, kind) for x in e)
    return False


# --------------------------------------------------------------------------
# reference evaluation

class Scope:
    """Model of the variable environment: a chain of local frames over one
    render-wide global layer (tal:define global ...)."""

    def __init__(self, initial, builtin_names=()):
        self.frames = [dict(initial)]
        self.globals = {}

    def lookup(self, name):
        for f in reversed(self.frames):
            if name in f:
                return f[name]
        if name in self.globals:
            return self.globals[name]
        raise KeyError(name)


class Evaluator:
    def __init__(self, lookup, log, convert):
        self.lookup = lookup      # name -> value, raises KeyError
        self.log = log            # list of recorder tags
        self.convert = convert    # value -> text (string: bodies)
        self.locals = []          # lambda / comprehension variables

    def ev(self, e):
        try:
            return self._ev(e)
        except (ModelRaises, ModelUnknown):
            raise
        except RecursionError as exc:
            if getattr(exc, "_verif_planted", False):
                raise ModelRaises(exc)
            raise
        except Exception as exc:  # noqa: BLE001 - python semantics of the expr
            raise ModelRaises(exc)
        except BaseException as exc:
            # KeyboardInterrupt / SystemExit planted by the generator
            if getattr(exc, "_verif_planted", False):
                raise ModelRaises(exc)
            raise

    def _with_locals(self, d, body):
        self.locals.append(d)
        try:
            return self._ev(body)
        finally:
            self.locals.pop()

    def _name(self, name):
        for d in reversed(self.locals):
            if name in d:
                return d[name]
        try:
            return self.lookup(name)
        except KeyError:
            pass
        if hasattr(builtins, name):
            return getattr(builtins, name)
        raise NameError(name)

    def _ev(self, e):
        k = e[0]
        if k == "const":
            return ast.literal_eval(e[1])
        if k == "var":
            return self._name(e[1])
        if k == "default":
            return self._name("default")
        if k == "nothing":
            return None
        if k == "attr":
            obj = self._ev(e[1])
            try:
                return getattr(obj, e[2])
            except AttributeError as exc:
                get = getattr(obj, "__getitem__", None)
                if get is None:
                    raise exc
                try:
                    return get(e[2])
                except KeyError:
                    raise exc
        if k == "item":
            return self._ev(e[1])[ast.literal_eval(e[2])]
        if k == "call":
            f = self._name(e[1])
            return f(*[self._ev(a) for a in e[2]])
        if k == "binop":
            op = e[1]
            if op == "and":
                return self._ev(e[2]) and self._ev(e[3])
            if op == "or":
                return self._ev(e[2]) or self._ev(e[3])
            a, b = self._ev(e[2]), self._ev(e[3])
            if op == "+":
                return a + b
            if op == "*":
                return a * b
            if op == "==":
                return a == b
            if op == "!=":
                return a != b
            if op == "<":
                return a < b
            if op == "in":
                return a in b
            raise ValueError(op)
        if k == "unot":
            return not self._ev(e[1])
        if k == "cond":
            return self._ev(e[2]) if self._ev(e[1]) else self._ev(e[3])
        if k == "callv":
            f = self._ev(e[1])
            return f(*[self._ev(a) for a in e[2]])
        if k == "lambda":
            args = [self._ev(a) for a in e[3]]
            if len(args) != len(e[1]):
                raise TypeError("lambda arity")
            return self._with_locals(dict(zip(e[1], args)), e[2])
        if k == "lambdadef":
            default = self._ev(e[2])      # in the enclosing scope
            return self._with_locals({e[1]: default}, e[3])
        if k == "listcomp":
            it = self._ev(e[3])
            return [self._with_locals({e[2]: x}, e[1]) for x in it]
        if k == "fstr":
            return "".join(p[1] if p[0] == "lit" else format(self._ev(p[1]))
                           for p in e[1])
        if k == "rec":
            f = self._name("rec")
            v = self._ev(e[2])
            return f(e[1], v)
        if k == "boom":
            f = self._name("boom")
            return f(*e[1:])
        if k == "pipe":
            alts = e[1]
            for i, a in enumerate(alts):
                if i == len(alts) - 1:
                    return self._ev(a)
                try:
                    return self._ev(a)
                except ModelRaises as m:
                    if isinstance(m.exc, CAUGHT):
                        continue
                    raise
                except CAUGHT:
                    continue
        if k == "prefix":
            kind = e[1]
            if kind == "python":
                return self._ev(e[2])
            if kind == "not":
                return not self._ev(e[2])
            if kind == "exists":
                try:
                    self._ev(e[2])
                except ModelRaises as m:
                    if isinstance(m.exc, EXISTS_CAUGHT):
                        return 0
                    raise
                except EXISTS_CAUGHT:
                    return 0
                return 1
            if kind == "structure":
                return Markup(self._ev(e[2]))
            if kind == "string":
                return self._ev(e[2])
            raise ValueError(kind)
        if k == "string":
            vals = []
            for p in e[1]:
                if p[0] == "lit":
                    vals.append(p[1].replace("$$", "$"))
                elif p[0] == "v":
                    vals.append(self.convert(self._name(p[1])))
                else:
                    vals.append(self.convert(self._ev(p[1])))
            dyn = [p for p in e[1] if p[0] != "lit"]
            if len(e[1]) == 1 and dyn:
                return vals[0]
            return "".join("" if v is None else v for v in vals)
        if k == "invalid":
            raise ExpressionError(e[1], e[2] if len(e) > 2 else None)
        raise ValueError(e)


def make_callables(log):
    """The recording / raising callables bound as ``rec`` and ``boom``."""
    def rec(tag, value=None):
        log.append(tag)
        return value

    def boom(name, tag=None):
        if tag is not None:
            log.append(tag)
        cls = EXC_CLASSES[name]
        exc = cls()
        try:
            exc._verif_planted = True
            exc._verif_tag = tag
        except Exception:  # noqa: BLE001
            pass
        raise exc
    return rec, boom
