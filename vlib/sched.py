"""Deterministic thread scheduler built on sys.settrace (C14).

Worker threads run arbitrary callables, but every *line event* inside a
chosen set of functions (the "yield points") parks the thread until the
scheduler releases it.  Exactly one worker runs at any time, so a schedule
(a list of worker indices: who takes the next step) determines the
interleaving at line granularity inside those functions.

No hook in the code under test is needed: the functions are selected by
their code objects.
"""
from __future__ import annotations

import sys
import threading
import time


class Blocked(Exception):
    pass


class Worker:
    def __init__(self, index, fn, sched):
        self.index = index
        self.fn = fn
        self.sched = sched
        self.go = threading.Semaphore(0)
        self.parked = threading.Event()
        self.done = False
        self.result = None
        self.exc = None
        self.steps = 0
        self.where = None
        self.thread = threading.Thread(target=self._run, daemon=True)

    def _trace(self, frame, event, arg):
        code = frame.f_code
        if code in self.sched.codes:
            return self._local
        if self.sched.names and (
                code.co_filename.rsplit("/", 1)[-1], code.co_name) \
                in self.sched.names:
            return self._local
        return None

    def _local(self, frame, event, arg):
        if event == "line":
            self.where = "%s:%d" % (frame.f_code.co_name, frame.f_lineno)
            self.park()
        return self._local

    def park(self):
        self.steps += 1
        self.parked.set()
        self.go.acquire()

    def _run(self):
        sys.settrace(self._trace)
        try:
            self.where = "start"
            self.park()
            self.result = self.fn()
        except BaseException as e:  # noqa: BLE001 - outcome of the worker
            self.exc = e
        finally:
            sys.settrace(None)
            self.done = True
            self.parked.set()


class Scheduler:
    def __init__(self, functions, step_timeout=10.0, names=()):
        # names: (file base name, function name) pairs - for functions
        # that cannot be named as objects (methods of local classes)
        self.names = set(names)
        self.codes = set()
        for f in functions:
            code = getattr(f, "__code__", None)
            if code is None and hasattr(f, "__func__"):
                code = f.__func__.__code__
            if code is None and hasattr(f, "__wrapped__"):
                code = f.__wrapped__.__code__
            if code is not None:
                self.codes.add(code)
        self.step_timeout = step_timeout

    def run(self, fns, schedule):
        """Run the callables under ``schedule``.  After the schedule is
        exhausted the lowest-numbered unfinished worker keeps running.
        Returns (workers, trace) where trace lists (worker, where)."""
        workers = [Worker(i, fn, self) for i, fn in enumerate(fns)]
        for w in workers:
            w.thread.start()
        for w in workers:
            if not w.parked.wait(self.step_timeout):
                raise Blocked("worker %d did not reach its start" % w.index)
        order = list(schedule)
        trace = []
        current = None
        while any(not w.done for w in workers):
            if order:
                i = order.pop(0) % len(workers)
            elif current is not None and not workers[current].done:
                i = current
            else:
                i = min(w.index for w in workers if not w.done)
            w = workers[i]
            if w.done:
                live = [x.index for x in workers if not x.done]
                if not live:
                    break
                w = workers[live[0]]
            current = w.index
            trace.append((w.index, w.where))
            w.parked.clear()
            w.go.release()
            if not w.parked.wait(self.step_timeout):
                raise Blocked("worker %d blocked at %s" % (w.index, w.where))
        for w in workers:
            w.thread.join(self.step_timeout)
        return workers, trace
