"""Deterministic thread scheduler built on sys.settrace (C14).

Worker threads run arbitrary callables, but every *line event* inside a
chosen set of functions (the "yield points") parks the thread until the
scheduler releases it.  Exactly one worker runs at any time, so a schedule
(a list of worker indices: who takes the next step) determines the
interleaving at line granularity inside those functions.

No hook in the code under test is needed: the functions are selected by
their code objects.
"""
from __future__ import annotations

import sys
import threading
import time


class Blocked(Exception):
    pass


class Worker:
    def __init__(self, index, fn, sched):
        self.index = index
        self.fn = fn
        self.sched = sched
        self.go = threading.Semaphore(0)
        self.parked = threading.Event()
        self.done = False
        self.result = None
        self.exc = None
        self.steps = 0
        self.where = None
        self.thread = threading.Thread(target=self._run, daemon=True)

    def _trace(self, frame, event, arg):
        code = frame.f_code
        if code in self.sched.codes:
            return self._local
        if self.sched.names and (
                code.co_filename.rsplit("/", 1)[-1], code.co_name) \
                in self.sched.names:
            return self._local
        return None

    def _local(self, frame, event, arg):
        if event == "line":
            self.where = "%s:%d" % (frame.f_code.co_name, frame.f_lineno)
            self.park()
        return self._local

    def park(self):
        self.steps += 1
        self.parked.set()
        self.go.acquire()

    def _run(self):
        sys.settrace(self._trace)
        try:
            self.where = "start"
            self.park()
            self.result = self.fn()
        except BaseException as e:  # noqa: BLE001 - outcome of the worker
            self.exc = e
        finally:
            sys.settrace(None)
            self.done = True
            self.parked.set()


class Scheduler:
    def __init__(self, functions, step_timeout=10.0, names=(),
                 block_timeout=None):
        # block_timeout: a released worker that does not reach its next
        # yield point within this time is taken to wait for a lock that a
        # parked worker holds; another worker is released then (the waiting
        # one continues on its own as soon as the lock is free)
        self.block_timeout = block_timeout
        # names: (file base name, function name) pairs - for functions
        # that cannot be named as objects (methods of local classes)
        self.names = set(names)
        self.codes = set()
        for f in functions:
            code = getattr(f, "__code__", None)
            if code is None and hasattr(f, "__func__"):
                code = f.__func__.__code__
            if code is None and hasattr(f, "__wrapped__"):
                code = f.__wrapped__.__code__
            if code is not None:
                self.codes.add(code)
        self.step_timeout = step_timeout

    def run(self, fns, schedule):
        """Run the callables under ``schedule``.  After the schedule is
        exhausted the lowest-numbered unfinished worker keeps running.
        Returns (workers, trace) where trace lists (worker, where)."""
        workers = [Worker(i, fn, self) for i, fn in enumerate(fns)]
        for w in workers:
            w.thread.start()
        for w in workers:
            if not w.parked.wait(self.step_timeout):
                raise Blocked("worker %d did not reach its start" % w.index)
        order = list(schedule)
        trace = []
        current = None
        while any(not w.done for w in workers):
            if order:
                i = order.pop(0) % len(workers)
            elif current is not None and not workers[current].done:
                i = current
            else:
                i = min(w.index for w in workers if not w.done)
            w = workers[i]
            if w.done:
                live = [x.index for x in workers if not x.done]
                if not live:
                    break
                w = workers[live[0]]
            if self.block_timeout is not None:
                self._lock_aware_step(workers, w, trace)
                current = w.index
                continue
            current = w.index
            trace.append((w.index, w.where))
            w.parked.clear()
            w.go.release()
            if not w.parked.wait(self.step_timeout):
                raise Blocked("worker %d blocked at %s" % (w.index, w.where))
        for w in workers:
            w.thread.join(self.step_timeout)
        return workers, trace

    def _lock_aware_step(self, workers, w, trace):
        """Release ``w`` for one step.  A released worker that does not come
        back within block_timeout waits for a lock: the parked workers are
        stepped (one at a time, each with the same rule) until it does."""
        def release(x):
            trace.append((x.index, x.where))
            x.parked.clear()
            x.go.release()
            return x.parked.wait(self.block_timeout)

        if w.parked.is_set() and not w.done:
            if release(w):
                return
        # w is on its way (now or from an earlier release)
        rounds = 0
        while not w.parked.is_set():
            parked = [x for x in workers if x is not w and not x.done and
                      x.parked.is_set()]
            if not parked:
                # everybody else is on the way as well: wait for anyone
                deadline = time.monotonic() + self.step_timeout
                while time.monotonic() < deadline:
                    if any(x.parked.is_set() for x in workers
                           if not x.done) or all(x.done for x in workers):
                        break
                    time.sleep(0.005)
                else:
                    raise Blocked("no worker can run (worker %d at %s)" % (
                        w.index, w.where))
                if all(x.done for x in workers):
                    return
                continue
            release(parked[rounds % len(parked)])
            rounds += 1
            if rounds > 20000:
                raise Blocked("worker %d never came back" % w.index)
