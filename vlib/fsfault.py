"""Child-process side of the cache checks (C15): renders templates with a
cache directory configured, optionally with the Python-level file-system
API interposed so that the parent can

  * list the file-system *steps* of storing a module          (mode "dry")
  * kill the process (os._exit) right before step k           (mode "crash")
  * stop before every step until the parent says go           (mode "turnstile")

Run as:  python -m vlib.fsfault JOBFILE     (result: one JSON line on stdout
prefixed with "RESULT ").  The interposition is installed BEFORE chameleon
is imported; CHAMELEON_CACHE must be set by the parent.
"""
from __future__ import annotations

import builtins
import io
import json
import os
import sys

STEPS = []          # names of the steps seen so far
STATE = {"mode": "plain", "crash_at": None, "cache": None, "armed": False}


def _in_cache(path):
    try:
        p = os.path.abspath(os.fspath(path))
    except TypeError:
        return False
    c = STATE["cache"]
    return bool(c) and (p == c or p.startswith(c + os.sep))


def step(name):
    """Called right before a file-system step is performed."""
    if not STATE["armed"]:
        return
    n = len(STEPS)
    STEPS.append(name)
    mode = STATE["mode"]
    if mode == "crash" and STATE["crash_at"] == n:
        # process death: no cleanup, no flushing of Python-level buffers
        os._exit(77)
    if mode == "turnstile":
        sys.stdout.write("STEP %d %s\n" % (n, name))
        sys.stdout.flush()
        line = sys.stdin.readline()
        if not line:
            os._exit(78)


class FileProxy:
    """Wraps a writable file object inside the cache directory."""

    def __init__(self, f, label):
        self._f = f
        self._label = label

    def write(self, data):
        step("write-begin:" + self._label)
        half = len(data) // 2
        if half:
            self._f.write(data[:half])
            try:
                self._f.flush()
            except Exception:  # noqa: BLE001
                pass
            step("write-half:" + self._label)
            r = self._f.write(data[half:])
        else:
            r = self._f.write(data)
        return (r or 0) + half

    def writelines(self, lines):
        for ln in lines:
            self.write(ln)

    def close(self):
        step("close:" + self._label)
        return self._f.close()

    def __enter__(self):
        self._f.__enter__()
        return self

    def __exit__(self, *a):
        step("close:" + self._label)
        return self._f.__exit__(*a)

    def __getattr__(self, k):
        return getattr(self._f, k)

    def __iter__(self):
        return iter(self._f)


def install(cache_dir):
    import shutil
    import tempfile
    STATE["cache"] = os.path.abspath(cache_dir)

    real_mkstemp = tempfile.mkstemp

    def mkstemp(*a, **kw):
        d = kw.get("dir", a[2] if len(a) > 2 else None)
        if d is not None and _in_cache(d):
            step("mkstemp")
        return real_mkstemp(*a, **kw)
    tempfile.mkstemp = mkstemp

    real_ntf = tempfile.NamedTemporaryFile

    def named_temporary_file(*a, **kw):
        d = kw.get("dir")
        f = real_ntf(*a, **kw)
        if d is not None and _in_cache(d):
            step("NamedTemporaryFile")
            return FileProxy(f, "tmp")
        return f
    tempfile.NamedTemporaryFile = named_temporary_file

    fd_paths = {}
    real_fdopen = os.fdopen

    def fdopen(fd, *a, **kw):
        f = real_fdopen(fd, *a, **kw)
        try:
            path = os.readlink("/proc/self/fd/%d" % fd)
        except OSError:
            path = ""
        mode = a[0] if a else kw.get("mode", "r")
        if _in_cache(path) and any(c in mode for c in "wax+"):
            return FileProxy(f, "tmp")
        return f
    os.fdopen = fdopen

    real_open = builtins.open

    def open_(file, mode="r", *a, **kw):
        f = real_open(file, mode, *a, **kw)
        if isinstance(file, (str, bytes, os.PathLike)) and _in_cache(file) \
                and any(c in mode for c in "wax+"):
            step("open-for-write:" + os.path.basename(os.fspath(file))[-12:])
            label = "final" if os.fspath(file).endswith(".py") else "other"
            return FileProxy(f, label)
        return f
    builtins.open = open_
    io.open = open_

    def wrap2(mod, name, label):
        real = getattr(mod, name)

        def f(src, dst, *a, **kw):
            if _in_cache(dst) or _in_cache(src):
                step(label)
            return real(src, dst, *a, **kw)
        setattr(mod, name, f)
    wrap2(os, "rename", "rename")
    wrap2(os, "replace", "replace")
    wrap2(os, "link", "link")
    wrap2(shutil, "move", "shutil.move")
    wrap2(shutil, "copyfile", "shutil.copyfile")
    wrap2(shutil, "copy", "shutil.copy")

    def wrap1(mod, name, label):
        real = getattr(mod, name)

        def f(p, *a, **kw):
            if _in_cache(p):
                step(label)
            return real(p, *a, **kw)
        setattr(mod, name, f)
    wrap1(os, "remove", "remove")
    wrap1(os, "unlink", "unlink")

    import py_compile
    real_compile = py_compile.compile

    def pyc(file, *a, **kw):
        if _in_cache(file):
            step("py_compile-begin")
        r = real_compile(file, *a, **kw)
        if _in_cache(file):
            step("py_compile-end")
        return r
    py_compile.compile = pyc


# --------------------------------------------------------------------------

def upper_translate(msgid, domain=None, mapping=None, context=None,
                    target_language=None, default=None):
    s = default if default is not None else msgid
    return ("T(%s)" % s) if isinstance(s, str) else s


def subclasses():
    """Application subclasses that differ in class-level configuration which
    is not an option (here: what the 'python' expression type means)."""
    import chameleon
    from chameleon.tales import StringExpr

    class SubA(chameleon.PageTemplate):
        pass

    class SubB(chameleon.PageTemplate):
        expression_types = dict(chameleon.PageTemplate.expression_types,
                                python=StringExpr)
    class A(chameleon.PageTemplate):
        """(body + "Sub") + "A" reads like body + "SubA")"""

    return {"SubA": SubA, "SubB": SubB, "A": A}


def make_template(job):
    import chameleon
    if job["cls"] in ("SubA", "SubB", "A"):
        cls = subclasses()[job["cls"]]
    else:
        cls = getattr(chameleon, job["cls"])
    opts = dict(job.get("options") or {})
    for k in ("boolean_attributes", "implicit_i18n_attributes"):
        if isinstance(opts.get(k), list):
            opts[k] = set(opts[k])
    if opts.pop("translate_upper", False):
        opts["translate"] = upper_translate
    if "filename" in job:
        return cls(job["filename"], **opts)
    if job.get("as_bytes") == "utf-8-sig":
        # the same text, given as bytes behind a byte-order mark
        import codecs
        return cls(codecs.BOM_UTF8 + job["body"].encode("utf-8"), **opts)
    return cls(job["body"], **opts)


def run_job(job):
    try:
        t = make_template(job)
        out = t.render(**(job.get("kwargs") or {}))
        if isinstance(out, bytes):
            out = out.decode("utf-8")
        return {"out": out}
    except BaseException as e:  # noqa: BLE001 - outcome of the code under test
        if isinstance(e, SystemExit):
            raise
        return {"exc": type(e).__name__, "msg": str(e)[:300]}


def listing(cache):
    out = []
    for root, dirs, files in os.walk(cache):
        for fn in sorted(files):
            p = os.path.join(root, fn)
            try:
                size = os.path.getsize(p)
            except OSError:
                size = -1
            out.append([os.path.relpath(p, cache), size])
    return sorted(out)


def run_thread_schedules(spec):
    """Two threads of THIS process construct and render the same template
    (same cache entry) under harness-owned schedules: every line of
    ModuleLoader.get / build / _load and BaseTemplate._cook is a yield
    point.  Every schedule uses a body of its own (a fresh entry)."""
    from chameleon.loader import ModuleLoader
    from chameleon.template import BaseTemplate
    from vlib.sched import Blocked, Scheduler
    fns = [ModuleLoader.get, ModuleLoader.build, ModuleLoader._load,
           BaseTemplate._cook]
    out = []
    for k, schedule in spec["schedules"]:
        job = dict(spec["jobs"][0])
        marker = "<!-- entry %s -->" % k
        job["body"] = job["body"] + marker
        sched = Scheduler(fns, step_timeout=20.0, block_timeout=0.15)
        try:
            workers, trace = sched.run(
                [lambda: run_job(job) for _ in range(spec.get("threads", 2))],
                schedule)
        except Blocked as e:
            out.append({"k": k, "blocked": str(e)})
            continue
        res = []
        for w in workers:
            if w.exc is not None:
                res.append({"exc": type(w.exc).__name__,
                            "msg": str(w.exc)[:200]})
            else:
                res.append(w.result)
        out.append({"k": k, "results": res, "marker": marker,
                    "steps": [w.steps for w in workers]})
    return out


def main():
    with open(sys.argv[1]) as f:
        spec = json.load(f)
    cache = os.environ["CHAMELEON_CACHE"]
    if spec.get("mode") == "sched":
        import chameleon  # noqa: F401
        from chameleon import config
        assert config.CACHE_DIRECTORY == os.path.abspath(cache)
        res = {"sched": run_thread_schedules(spec)}
        sys.stdout.write("RESULT " + json.dumps(res) + "\n")
        sys.stdout.flush()
        os._exit(0)
    STATE["mode"] = spec.get("mode", "plain")
    STATE["crash_at"] = spec.get("crash_at")
    if STATE["mode"] != "plain":
        install(cache)
    import chameleon  # noqa: F401  (reads CHAMELEON_CACHE at import)
    from chameleon import config
    assert config.CACHE_DIRECTORY == os.path.abspath(cache), \
        "cache directory not configured"
    STATE["armed"] = True
    if STATE["mode"] != "plain":
        # (a step of its own before anything is compiled: a writer may be
        # held here while the other one is already half-way through)
        step("begin")
    results = [run_job(j) for j in spec["jobs"]]
    STATE["armed"] = False
    res = {"results": results, "steps": STEPS, "files": listing(cache)}
    sys.stdout.write("RESULT " + json.dumps(res) + "\n")
    sys.stdout.flush()
    # leave without running atexit handlers / destructors that could touch
    # the cache directory
    os._exit(0)


if __name__ == "__main__":
    main()
