"""Coverage-guided campaigns (atheris / libFuzzer) over a check's Hypothesis
strategy: the fuzzer mutates the byte stream that Hypothesis turns into a
structured case (``test.hypothesis.fuzz_one_input``), chameleon is
instrumented for coverage, and the check's own oracle is the crash
condition - so the campaign searches for oracle violations, not merely for
exceptions.

Child entry point:  python -m vlib.fuzz MODULE PART TIER OUTDIR -runs=N -seed=S
A violation writes OUTDIR/violation-<k>.json (the structured case and the
mismatch) before the fuzzer stops.
"""
from __future__ import annotations

import json
import os
import subprocess
import sys

ROOT = os.path.dirname(os.path.dirname(os.path.abspath(__file__)))


def child_main(argv):
    modname, partname, tier, outdir = argv[1:5]
    fuzz_args = [a for a in argv[5:] if a.startswith("-")]
    import atheris
    with atheris.instrument_imports(include=["chameleon"]):
        import chameleon  # noqa: F401
        import chameleon.zpt.template  # noqa: F401
        import chameleon.zpt.loader  # noqa: F401
    import importlib
    from hypothesis import HealthCheck, given, settings
    from vlib.harness import _evaluate
    mod = importlib.import_module(modname)
    part = mod.CHECK.parts[partname]
    part.setup_shard(tier, 0)
    stats = {"execs": 0, "nontrivial": 0, "known": 0, "harness": 0,
             "inputs": 0}
    os.makedirs(outdir, exist_ok=True)

    class Violation(Exception):
        pass

    @settings(database=None, deadline=None,
              suppress_health_check=list(HealthCheck))
    @given(part.strategy(tier))
    def test(case):
        stats["execs"] += 1
        try:
            if part.nontrivial(case):
                stats["nontrivial"] += 1
        except Exception:  # noqa: BLE001
            pass
        kind, payload = _evaluate(part, case)
        if kind == "ok":
            return
        if kind == "harness":
            stats["harness"] += 1
            if stats["harness"] <= 3:
                with open(os.path.join(outdir, "harness-%d.json" %
                                       stats["harness"]), "w") as f:
                    json.dump({"case": case, "tb": payload}, f, default=repr)
            return
        if part.known(case, payload) is not None:
            stats["known"] += 1
            return
        with open(os.path.join(outdir, "violation-%d.json" %
                               stats["execs"]), "w") as f:
            json.dump({"case": case, "mismatch": payload.to_json()}, f,
                      default=repr)
        write_stats()
        raise Violation(payload.bucket)

    def write_stats():
        with open(os.path.join(outdir, "stats.json"), "w") as f:
            json.dump(stats, f)

    fuzz_one = test.hypothesis.fuzz_one_input
    count = {"n": 0}

    def target(data):
        count["n"] += 1
        stats["inputs"] = count["n"]
        fuzz_one(data)
        # (libFuzzer leaves through exit(): atexit handlers do not run)
        if count["n"] % 25 == 0 or count["n"] < 3:
            write_stats()

    # seed corpus: byte strings that Hypothesis accepts as complete cases
    # (an empty corpus makes libFuzzer spend its first thousands of runs on
    # inputs that are too short to describe any case)
    import random
    seed_arg = [a for a in fuzz_args if a.startswith("-seed=")]
    rnd = random.Random(int(seed_arg[0][6:]) if seed_arg else 1)
    corpus = os.path.join(outdir, "corpus")
    os.makedirs(corpus, exist_ok=True)
    kept = 0
    for i in range(300):
        if kept >= 24:
            break
        buf = bytes(rnd.getrandbits(8) if rnd.random() < 0.7 else 0
                    for _ in range(rnd.choice([128, 512, 2048])))
        try:
            canon = fuzz_one(buf)
        except Violation:
            raise
        if canon is not None:
            kept += 1
            with open(os.path.join(corpus, "seed%d" % kept), "wb") as f:
                f.write(canon)
    stats["seed_corpus"] = kept
    write_stats()

    atheris.Setup([argv[0]] + fuzz_args + [corpus] + [
        "-artifact_prefix=" + outdir + os.sep, "-print_final_stats=0",
        "-verbosity=0"], target)
    import atexit
    atexit.register(write_stats)
    try:
        atheris.Fuzz()
    finally:
        write_stats()


def campaign(modname, partname, tier, runs, seed, shards=8, timeout=7200):
    """Run ``shards`` independent campaigns; returns a stage result dict."""
    import shutil
    import tempfile
    from vlib.harness import Mismatch
    base = tempfile.mkdtemp(prefix="fuzz-")
    procs = []
    env = dict(os.environ)
    try:
        for i in range(shards):
            out = os.path.join(base, "s%d" % i)
            os.makedirs(out)
            cmd = [sys.executable, "-m", "vlib.fuzz", modname, partname, tier,
                   out, "-runs=%d" % runs, "-seed=%d" % (seed * 100 + i + 1),
                   "-max_len=4096"]
            # (libFuzzer leaves through exit(): the part's teardown does
            # not run, so its scratch files live inside the shard directory)
            env = dict(env, TMPDIR=out)
            procs.append((out, subprocess.Popen(
                cmd, cwd=ROOT, env=env, stdout=subprocess.DEVNULL,
                stderr=subprocess.PIPE, text=True)))
        total = {"execs": 0, "nontrivial": 0, "known": 0, "harness": 0,
                 "inputs": 0}
        failures, harness = [], []
        for out, p in procs:
            try:
                _, err = p.communicate(timeout=timeout)
            except subprocess.TimeoutExpired:
                p.kill()
                err = "timeout"
            sp = os.path.join(out, "stats.json")
            if os.path.exists(sp):
                st_ = json.load(open(sp))
                for k in total:
                    total[k] += st_.get(k, 0)
            else:
                harness.append("fuzz shard produced no stats: %s" %
                               (err or "")[-400:])
            for fn in sorted(os.listdir(out)):
                if fn.startswith("violation-"):
                    d = json.load(open(os.path.join(out, fn)))
                    failures.append((d["case"], Mismatch(
                        "fuzz:" + d["mismatch"]["bucket"],
                        d["mismatch"].get("detail"))))
                elif fn.startswith("harness-"):
                    d = json.load(open(os.path.join(out, fn)))
                    harness.append(str(d.get("tb"))[-600:])
        return {
            "evaluations": total["execs"],
            "nontrivial_ids": ["fuzz-%s-%d" % (partname, i)
                               for i in range(min(total["nontrivial"], 10**6))],
            "failures": failures[:3], "harness": harness[:2],
            "known": {},
            "samples": [{"campaign": "atheris over %s.%s" % (modname,
                                                              partname),
                         "runs_per_shard": runs, "shards": shards}],
            "info": dict(total, runs_per_shard=runs, shards=shards,
                         engine="atheris/libFuzzer + hypothesis "
                                "fuzz_one_input, chameleon instrumented"),
        }
    finally:
        shutil.rmtree(base, ignore_errors=True)


if __name__ == "__main__":
    child_main(sys.argv)


from vlib.harness import Stage  # noqa: E402


class FuzzStage(Stage):
    """Thorough-tier stage: atheris campaign over one part of a check."""

    tiers = ("thorough",)

    def __init__(self, modname, partname, runs, shards=8):
        self.modname = modname
        self.partname = partname
        self.runs = runs
        self.shards = shards
        self.name = "fuzz_" + partname

    def _part(self):
        import importlib
        return importlib.import_module(self.modname).CHECK.parts[
            self.partname]

    def oracle(self, case):
        return self._part().oracle(case)

    def known(self, case, mismatch):
        return self._part().known(case, mismatch)

    def run(self, tier, seed, check):
        runs = int(self.runs * float(os.environ.get("VERIF_FUZZ_SCALE", "1")))
        return campaign(self.modname, self.partname, tier, max(runs, 10),
                        seed, self.shards)
