"""Abstract page templates: serializer (template source text with recorded
expression positions) and reference interpreter.

The interpreter works on the abstract tree only.  It implements the page
template language as documented in docs/reference.rst; places where the
reference is silent and an exact comparison needs a choice are marked
(char.) = characterisation of the pinned implementation.

node := ["text", [part...]]          part = ["lit", s] | ["interp", expr]
      | ["elem", {...}]              see ``Elem`` keys below
      | ["comment", [part...]]
      | ["raw", s]                   emitted verbatim by both sides

elem keys
  name      tag name                     ns: True for <tal:name> elements
  attrs     [[space, name, quote, [part...]], ...]    static attributes
  stmts     {"define": [[scope, [names], expr]...], "condition": expr,
             "repeat": [[names], expr], "switch": expr, "case": expr,
             "content": [mode, expr], "replace": [mode, expr],
             "omit-tag": expr | None, "attributes": [[name|None, expr]...],
             "on-error": [mode, expr]}
  order     list of ints: where the statement attributes are written among
            the static ones (a permutation seed; irrelevant to the output)
  children  [node...]
  selfclose bool   (no children, written <x ... />)
  close_space  whitespace before '>' or '/>'
"""
from __future__ import annotations

import html as _html

from vlib import exprs as X
from vlib.exprs import DEFAULT, Markup, ModelRaises

STMT_ORDER_IMPL = ("case", "condition", "repeat", "switch")
STMT_ORDER_DOCS = ("switch", "condition", "repeat", "case")
STMT_NAMES = ("define", "condition", "repeat", "switch", "case", "content",
              "replace", "omit-tag", "attributes", "on-error")


# ==========================================================================
# serializer

def enc_attr(s, quote):
    """Escape expression/statement text for a quoted attribute value."""
    s = s.replace("&", "&amp;").replace("<", "&lt;")
    if quote == '"':
        s = s.replace('"', "&quot;")
    else:
        s = s.replace("'", "&#39;")
    return s


def enc_text(s):
    """Escape expression text for element text (inside ${...})."""
    return s.replace("&", "&amp;").replace("<", "&lt;")


class Source:
    """Template source under construction; records expression sites."""

    def __init__(self):
        self.buf = []
        self.pos = 0
        self.sites = []     # {"id":, "offset":, "text":, "kind":}

    def add(self, s):
        self.buf.append(s)
        self.pos += len(s)

    def add_expr(self, text, kind, ident=None, strip=True):
        lead = len(text) - len(text.lstrip()) if strip else 0
        core = text.strip() if strip else text
        self.sites.append({"id": ident, "offset": self.pos + lead,
                           "text": core, "kind": kind})
        self.add(text)

    def text(self):
        return "".join(self.buf)


def _parts_src(out, parts, enc, kind, sq="'"):
    for p in parts:
        if p[0] == "lit":
            out.add(p[1])
        else:
            out.add("${")
            out.add_expr(enc(X.src(p[1], sq)), kind)
            out.add("}")


def define_src(defs, sq):
    items = []
    for scope, names, e in defs:
        tgt = names[0] if len(names) == 1 else "(" + ", ".join(names) + ")"
        pre = "global " if scope == "global" else (
            "local " if scope == "local!" else "")
        items.append((pre + tgt + " ", X.src(e, sq)))
    return items


def stmt_value(out, kind, val, quote, prefix_len=0):
    """Write the value of statement ``kind`` into ``out`` (already inside
    the quotes), recording expression sites."""
    sq = "'" if quote == '"' else '"'

    def enc(s):
        return enc_attr(s, quote)

    def esc_semi(s):
        # a semicolon inside a part is doubled - except the one that ends
        # entity-like text (&lt; &#38;), which the statement parser takes
        # as part of that text (char.)
        import re as _re
        return _re.sub(r"(&#?x?\w{1,8};)|;",
                       lambda m: m.group(1) or ";;", s)
    if kind == "define":
        first = True
        for head, es in define_src(val, sq):
            if not first:
                out.add("; ")
            first = False
            out.add(head)
            out.add_expr(enc(esc_semi(es)), "define")
    elif kind == "attributes":
        first = True
        for name, e in val:
            if not first:
                out.add("; ")
            first = False
            if name is not None:
                out.add(name + " ")
            out.add_expr(enc(esc_semi(X.src(e, sq))), "attributes")
    elif kind == "repeat":
        names, e = val
        tgt = names[0] if len(names) == 1 else "(" + ", ".join(names) + ")"
        out.add(tgt + " ")
        out.add_expr(enc(X.src(e, sq)), "repeat")
    elif kind in ("content", "replace", "on-error"):
        mode, e = val
        if mode == "structure":
            out.add("structure ")
        elif mode == "text!":
            out.add("text ")
        out.add_expr(enc(X.src(e, sq)), kind)
    elif kind == "omit-tag":
        if val is not None:
            out.add_expr(enc(X.src(val, sq)), kind)
    else:  # condition, switch, case
        out.add_expr(enc(X.src(val, sq)), kind)


def serialize(nodes, out=None, spelling=None):
    out = out or Source()
    for n in nodes:
        k = n[0]
        if k == "text":
            _parts_src(out, n[1], enc_text, "text")
        elif k == "raw":
            out.sites.append({"id": None, "offset": out.pos, "text": n[1],
                              "kind": "raw"})
            out.add(n[1])
        elif k == "comment":
            out.add("<!--")
            _parts_src(out, n[1], enc_text, "comment")
            out.add("-->")
        elif k == "elem":
            _elem_src(out, n[1], spelling)
        else:
            raise ValueError(k)
    return out


def stmt_items(el):
    """Statement attributes in canonical order."""
    return [(k, el["stmts"][k]) for k in STMT_NAMES if k in el["stmts"]]


def merged_order(n_static, n_stmt, order):
    """Positions: returns a list of ('a', i) / ('s', j) preserving the
    relative order of the static attributes; statement j is inserted
    according to order[j] (mod n_static + 1), stable."""
    slots = [[] for _ in range(n_static + 1)]
    keyed = sorted(range(n_stmt), key=lambda j: (
        (order[j % len(order)] if order else 0), j))
    for rank, j in enumerate(keyed):
        o = order[j % len(order)] if order else 0
        slots[o % (n_static + 1)].append(j)
    res = []
    for i in range(n_static + 1):
        for j in slots[i]:
            res.append(("s", j))
        if i < n_static:
            res.append(("a", i))
    return res


TAL_URI = "http://xml.zope.org/namespaces/tal"


def _elem_src(out, el, spelling):
    """``spelling`` (optional) re-spells the statements without changing
    their meaning: {"prefix": other prefix bound to the TAL namespace,
    "decl": "self" (xmlns declaration on every element that uses it; with
    "root" the caller declares it on an ancestor), "data": bit mask - which
    statements of an element are written data-<prefix>-<name>}."""
    sp = spelling or {}
    prefix = sp.get("prefix", "tal")
    ns = el.get("ns")
    name = (prefix + ":" + el["name"]) if ns else el["name"]
    out.add("<" + name)
    stmts = stmt_items(el)
    out.elem_counter = getattr(out, "elem_counter", 0) + 1
    # (data- attributes are an alternative for ordinary elements; on an
    # element of the tal namespace unprefixed attributes already are TAL)
    mask = 0 if ns else sp.get("data", 0) >> (out.elem_counter % 5)
    if sp.get("decl") == "self" and (stmts or ns):
        q = '"' if out.elem_counter % 2 else "'"
        out.add(" xmlns:%s=%s%s%s" % (prefix, q, TAL_URI, q))
    layout = merged_order(len(el["attrs"]), len(stmts), el.get("order") or [])
    for kind, idx in layout:
        if kind == "a":
            space, aname, quote, parts = el["attrs"][idx]
            if quote is None:
                # an attribute written without a value
                out.add(space + aname)
                continue
            out.add(space + aname + "=" + quote)
            _parts_src(out, parts, lambda s: enc_attr(s, quote), "attr",
                       "'" if quote == '"' else '"')
            out.add(quote)
        else:
            sname, val = stmts[idx]
            quote = el.get("squote", '"')
            if ns and el.get("ns_bare"):
                pre = ""
            elif (mask >> idx) & 1:
                pre = "data-" + prefix + "-"
            else:
                pre = prefix + ":"
            out.add(" " + pre + sname + "=" + quote)
            stmt_value(out, sname, val, quote)
            out.add(quote)
    for raw in el.get("extra_attrs", ()):
        # attributes of other template-language namespaces (METAL, I18N),
        # written verbatim by the checks that use them
        out.add(raw)
    cs = el.get("close_space", "")
    if el.get("selfclose"):
        out.add(cs + "/>")
        return
    out.add(cs + ">")
    serialize(el["children"], out, spelling)
    out.add("</" + name + ">")



# ==========================================================================
# value conversion at insertion sites

def to_text(v, encoding="utf-8", translate=None):
    """Text of a value *before* escaping; returns (text | None, is_markup)."""
    if v is None:
        return None, False
    t = type(v)
    if t is bytes:
        return v.decode(encoding), False
    if t is str:
        return v, False
    if t is int or t is float:
        return str(v), True          # never needs escaping
    m = getattr(v, "__html__", None)
    if m is not None:
        return m(), True
    if translate is not None:
        r = translate(v)
        if r is not v:
            return r, False
    return str(v), False


def escape(s, quote=None):
    s = s.replace("&", "&amp;").replace("<", "&lt;").replace(">", "&gt;")
    if quote == '"':
        s = s.replace('"', "&quot;")
    elif quote == "'":
        s = s.replace("'", "&#39;")
    return s


def insert_text(v, mode="text", quote=None, translate=None):
    """What is appended to the output for value ``v`` (None = nothing)."""
    s, markup = to_text(v, translate=translate)
    if s is None:
        return None
    if mode == "structure" or markup:
        return s
    return escape(s, quote)


# ==========================================================================
# reference interpreter

class ModelRepeatItem:
    def __init__(self, length):
        self.length = length
        self.index = -1

    number = property(lambda s: s.index + 1)
    start = property(lambda s: s.index == 0)
    end = property(lambda s: s.index == s.length - 1)
    even = property(lambda s: s.index % 2 == 0)
    odd = property(lambda s: s.index % 2 == 1)
    parity = property(lambda s: "even" if s.index % 2 == 0 else "odd")


class ModelRepeat(dict):
    def __getattr__(self, k):
        try:
            return self[k]
        except KeyError:
            raise AttributeError(k)


ModelUnknown = X.ModelUnknown


class ErrorInfo:
    def __init__(self, exc, locate=None):
        self.type = type(exc)
        self.value = exc
        self._locate = locate
        self._tag = getattr(exc, "_verif_tag", None)

    def _pos(self):
        if self._locate is None or self._tag is None:
            raise ModelUnknown("position of an untagged failure")
        return self._locate(self._tag)

    lineno = property(lambda s: s._pos()[0])
    offset = property(lambda s: s._pos()[1])


class Interp:
    def __init__(self, env, guard_order=STMT_ORDER_IMPL, boolean_attrs=(),
                 translate=None, on_error_handler=None, source_info=None,
                 leak=False, locate=None):
        self.log = []
        rec, boom = X.make_callables(self.log)
        base = dict(env)
        base.setdefault("rec", rec)
        base.setdefault("boom", boom)
        self.repeat = ModelRepeat()
        base.setdefault("repeat", self.repeat)
        self.frames = [base]
        self.globals = {}
        self.out = []
        self.guard_order = guard_order
        self.boolean_attrs = set(boolean_attrs)
        self.translate = translate
        self.handler_log = []
        self.on_error_handler = on_error_handler
        self.switches = []
        self.ev = X.Evaluator(self.lookup, self.log, self._string_convert)
        self.seps = source_info or {}
        self.leak = leak          # deviation model of known finding K5
        self.pending = []         # frames abandoned by a propagating error
        self.locate = locate

    # -- scope -------------------------------------------------------------
    def lookup(self, name):
        for f in reversed(self.frames):
            if name in f:
                return f[name]
        if name in self.globals:
            return self.globals[name]
        if name == "nothing":
            return None
        raise KeyError(name)

    def _string_convert(self, v):
        s, _ = to_text(v, translate=self.translate)
        return s

    def eval(self, e, with_default=False):
        if with_default:
            self.frames.append({"default": DEFAULT, "__alias__": True})
            try:
                return self.ev.ev(e)
            finally:
                self.frames.pop()
        return self.ev.ev(e)

    # -- rendering ---------------------------------------------------------
    def render(self, nodes):
        self.nodes(nodes)
        return "".join(self.out)

    def nodes(self, nodes):
        for n in nodes:
            k = n[0]
            if k == "text":
                self.parts(n[1], None)
            elif k == "raw":
                self.out.append(n[1])
            elif k == "comment":
                self.out.append("<!--")
                self.parts(n[1], None)
                self.out.append("-->")
            elif k == "elem":
                self.elem(n[1])
            else:
                raise ValueError(k)

    def parts_value(self, parts, quote):
        """Concatenated text of literal/interpolated parts; None if the
        whole value is one interpolation that evaluates to nothing."""
        if not any(p[0] == "interp" for p in parts):
            return "".join(p[1] for p in parts)
        vals = []
        for p in parts:
            if p[0] == "lit":
                vals.append(p[1].replace("$$", "$"))
            else:
                v = self.eval(p[1])
                vals.append(insert_text(v, "text", quote, self.translate))
        if len(vals) == 1:
            return vals[0]
        return "".join("" if v is None else v for v in vals)

    def parts(self, parts, quote):
        if not any(p[0] == "interp" for p in parts):
            self.out.append("".join(p[1] for p in parts).replace("$$", "$"))
            return
        v = self.parts_value(parts, quote)
        if v is not None:
            self.out.append(v)

    # -- element -----------------------------------------------------------
    def elem(self, el):
        st = el["stmts"]
        if "on-error" not in st:
            return self.elem_body(el)
        mark = len(self.out)
        depth = len(self.frames)
        sw = len(self.switches)
        try:
            self.elem_body(el)
        except ModelRaises as m:
            if not isinstance(m.exc, Exception):
                raise
            del self.out[mark:]
            if self.leak:
                # K5: definitions made by the abandoned element are not
                # undone (the variable context is one flat dictionary):
                # the innermost value written last stays visible
                for f in reversed(self.pending):
                    for n, v in f.items():
                        for g in reversed(self.frames[:depth]):
                            if n in g and not g.get("__alias__"):
                                g[n] = v
                                break
                        else:
                            self.frames[0][n] = v
            del self.pending[:]
            del self.frames[depth:]
            del self.switches[sw:]
            if self.on_error_handler is not None:
                self.handler_log.append(type(m.exc).__name__)
            mode, e = st["on-error"]
            self.frames.append({"error": ErrorInfo(m.exc, self.locate),
                                "default": DEFAULT, "__alias__": True})
            try:
                v = self.ev.ev(e)
            finally:
                self.frames.pop()
            # (char.) tags only when there is no tal:omit-tag at all
            tags = "omit-tag" not in st and not el.get("ns")
            if tags:
                self.out.append("<" + el["name"])
                for space, aname, quote, parts in el["attrs"]:
                    if any(p[0] == "interp" for p in parts):
                        continue
                    if any(n is not None and n.lower() == aname.lower()
                           for n, _ in st.get("attributes", ())):
                        continue
                    self.out.append(space + aname + "=" + quote + "".join(
                        p[1] for p in parts) + quote)
                self.out.append(">" if el.get("selfclose")
                                else el.get("close_space", "") + ">")
            s = insert_text(v, "structure" if mode == "structure" else "text",
                            None, self.translate)
            if s is not None:
                self.out.append(s)
            if tags:
                self.out.append("</" + el["name"] + ">")

    def elem_body(self, el):
        st = el["stmts"]
        frame = {}
        self.frames.append(frame)
        try:
            for scope, names, e in st.get("define", ()):
                v = self.eval(e)
                if len(names) == 1:
                    vals = [v]
                else:
                    try:
                        vals = list(v)
                    except TypeError as exc:
                        raise ModelRaises(exc)
                    if len(vals) != len(names):
                        raise ModelRaises(ValueError("unpack"))
                for n, x in zip(names, vals):
                    if scope == "global":
                        self.globals[n] = x
                    else:
                        frame[n] = x
            self.guards(el, 0)
        except ModelRaises:
            self.pending.append(self.frames.pop())
            raise
        self.frames.pop()

    def guards(self, el, i):
        st = el["stmts"]
        if i == len(self.guard_order):
            return self.inner(el)
        g = self.guard_order[i]
        if g not in st:
            return self.guards(el, i + 1)
        if g == "condition":
            if self.eval(st[g]):
                self.guards(el, i + 1)
            return
        if g == "switch":
            self.switches.append([self.eval(st[g]), False])
            try:
                self.guards(el, i + 1)
            finally:
                self.switches.pop()
            return
        if g == "case":
            # nearest enclosing switch (never the element's own)
            own = 1 if ("switch" in st and self.guard_order.index("switch")
                        < self.guard_order.index("case")) else 0
            sw = self.switches[-1 - own]
            if sw[1]:
                return
            v = self.eval(st[g], with_default=True)
            if v == sw[0] or v is DEFAULT:
                sw[1] = True
                self.guards(el, i + 1)
            return
        if g == "repeat":
            names, e = st[g]
            it = self.eval(e)
            try:
                items = list(it) if it is not None else []
            except TypeError as exc:
                raise ModelRaises(exc)
            key = names[0] if len(names) == 1 else tuple(names)
            item = ModelRepeatItem(len(items))
            self.repeat[key] = item
            frame = {n: None for n in names}
            self.frames.append(frame)
            try:
                sep = self.seps.get(id(el), "")
                for idx, x in enumerate(items):
                    item.index = idx
                    if len(names) == 1:
                        frame[names[0]] = x
                    else:
                        try:
                            vals = list(x)
                        except TypeError as exc:
                            raise ModelRaises(exc)
                        if len(vals) != len(names):
                            raise ModelRaises(ValueError("unpack"))
                        for n, xv in zip(names, vals):
                            frame[n] = xv
                    self.guards(el, i + 1)
                    if idx < len(items) - 1:
                        self.out.append(sep)
            except ModelRaises:
                self.pending.append(self.frames.pop())
                raise
            self.frames.pop()
            return
        raise ValueError(g)

    def inner(self, el):
        st = el["stmts"]
        if "replace" in st:
            mode, e = st["replace"]
            v = self.eval(e, with_default=True)
            if v is not DEFAULT:
                s = insert_text(v, "structure" if mode == "structure"
                                else "text", None, self.translate)
                if s is not None:
                    self.out.append(s)
                return
        omit = False
        if el.get("ns"):
            # (char.) the tags of a tal: element never appear: its
            # tal:omit-tag expression is not even evaluated
            omit = True
        elif "omit-tag" in st:
            oe = st["omit-tag"]
            omit = True if oe is None else bool(self.eval(oe))
        has_content = "content" in st
        if not omit:
            self.start_tag(el, has_content)
        if has_content:
            mode, e = st["content"]
            v = self.eval(e, with_default=True)
            if v is DEFAULT:
                self.nodes(el["children"])
            else:
                s = insert_text(v, "structure" if mode == "structure"
                                else "text", None, self.translate)
                if s is not None:
                    self.out.append(s)
        else:
            self.nodes(el["children"])
        if not omit and (has_content or not el.get("selfclose")):
            self.out.append("</" + el["name"] + ">")

    def start_tag(self, el, has_content):
        st = el["stmts"]
        self.out.append("<" + el["name"])
        dyn = list(st.get("attributes", ()))
        named = {}
        for n, e in dyn:
            if n is not None:
                named[n.lower()] = (n, e)
        used = set()
        # (char.) attribute dictionaries are evaluated first, in their
        # written order, before static interpolations and named entries
        hoisted = [self.eval(e, with_default=True) for n, e in dyn
                   if n is None]
        for space, aname, quote, parts in el["attrs"]:
            ov = named.get(aname.lower())
            if ov is not None:
                used.add(aname.lower())
                static = "".join(p[1] for p in parts) \
                    if not any(p[0] == "interp" for p in parts) else None
                s = self.attr_value(ov[0], ov[1], quote, static)
                if s is not None:
                    self.out.append(space + ov[0] + "=" + quote + s + quote)
                continue
            if aname in self.boolean_attrs and any(
                    p[0] == "interp" for p in parts):
                v = self.parts_value(parts, quote)
                if v:
                    self.out.append(space + aname + "=" + quote + aname +
                                    quote)
                continue
            v = self.parts_value(parts, quote)
            if v is not None:
                self.out.append(space + aname + "=" + quote + v + quote)
        for n, e in dyn:
            if n is None:
                d = hoisted.pop(0)
                for k, v in d.items():
                    if k in self.boolean_attrs:
                        if not v:
                            continue
                        v = k
                    if v is None:
                        continue
                    s = insert_text(v, "text", '"', self.translate)
                    self.out.append(" " + k + '="' + s + '"')
                continue
            if n.lower() in used:
                continue
            s = self.attr_value(n, e, '"', None)
            if s is not None:
                self.out.append(" " + n + '="' + s + '"')
        cs = el.get("close_space", "")
        if el.get("selfclose") and not has_content:
            self.out.append(cs + "/>")
        elif el.get("selfclose"):
            self.out.append(">")
        else:
            self.out.append(cs + ">")

    def attr_value(self, name, e, quote, static):
        v = self.eval(e, with_default=True)
        if name in self.boolean_attrs:
            if v is DEFAULT:
                return static
            return name if v else None
        if v is DEFAULT:
            return static
        return insert_text(v, "text", quote, self.translate)


# ==========================================================================
# repeat separators (char.): "\n" + one space per character of the last line
# of the most recent text token seen before the element, in source order

def separators(nodes):
    """Map id(elem dict) -> separator string for every element with a
    tal:repeat, following the document-order rule of the implementation."""
    seps = {}
    state = {"last": "", "ws": "\n"}

    def text_of(parts):
        out = Source()
        _parts_src(out, parts, enc_text, "text")
        return out.text()

    def walk(ns):
        for n in ns:
            if n[0] == "text":
                state["last"] = text_of(n[1])
            elif n[0] == "raw":
                # raw runs are emitted verbatim; only pure text matters
                if "<" not in n[1]:
                    state["last"] = n[1]
            elif n[0] == "elem":
                el = n[1]
                if state["last"] is not None:
                    state["ws"] = "\n" + " " * len(
                        state["last"].rsplit("\n", 1)[-1])
                ws = state["ws"]
                if "repeat" in el["stmts"]:
                    if el.get("ns"):
                        state["last"] = None
                        state["ws"] = ws.lstrip("\n")
                        ws = ""
                    seps[id(el)] = ws
                walk(el["children"])
    walk(nodes)
    return seps


def locator(source):
    """tag -> (line, column) of the expression site containing the tag."""
    text = source.text()

    def locate(tag):
        for site in source.sites:
            if "'" + tag + "'" in site["text"] or \
                    '"' + tag + '"' in site["text"] or \
                    "&#39;" + tag + "&#39;" in site["text"] or \
                    "&quot;" + tag + "&quot;" in site["text"]:
                pos = site["offset"]
                before = text[:pos]
                # positions after character entities in the same attribute
                # value / interpolation are shifted (known finding K12,
                # checked under C11): not predicted here
                start = max(before.rfind('="'), before.rfind("='"),
                            before.rfind("${"))
                if start >= 0 and "&" in before[start:]:
                    raise ModelUnknown("position after an entity")
                return (before.count("\n") + 1,
                        pos - before.rfind("\n") - 1)
        raise ModelUnknown("no site for tag " + tag)
    return locate


def run_model(nodes, env, **kw):
    """Returns ("out", text, log, interp) or ("exc", exception, log, interp)"""
    it = Interp(env, source_info=separators(nodes), **kw)
    try:
        out = it.render(nodes)
    except ModelRaises as m:
        return ("exc", m.exc, it.log, it)
    return ("out", out, it.log, it)
