"""Independent reader of rendered markup.

A small character scanner written for the checks (it shares nothing with
Chameleon's tokenizer/parser regexes).  It is total: any string is split
into tokens, malformed constructs come back as ("junk", text).

tokens:  ("text", s) ("comment", s) ("cdata", s) ("pi", s) ("decl", s)
         ("start", name, [(attr_name, quote, raw_value)...], selfclosing)
         ("end", name)
"""
from __future__ import annotations

import html

WS = " \t\r\n"


def scan(s):
    out = []
    i, n = 0, len(s)
    while i < n:
        if s[i] != "<":
            j = s.find("<", i)
            if j < 0:
                j = n
            out.append(("text", s[i:j]))
            i = j
            continue
        if s.startswith("<!--", i):
            j = s.find("-->", i + 4)
            if j < 0:
                out.append(("junk", s[i:]))
                break
            out.append(("comment", s[i + 4:j]))
            i = j + 3
            continue
        if s.startswith("<![CDATA[", i):
            j = s.find("]]>", i + 9)
            if j < 0:
                out.append(("junk", s[i:]))
                break
            out.append(("cdata", s[i + 9:j]))
            i = j + 3
            continue
        if s.startswith("<?", i):
            j = s.find("?>", i + 2)
            if j < 0:
                out.append(("junk", s[i:]))
                break
            out.append(("pi", s[i + 2:j]))
            i = j + 2
            continue
        if s.startswith("<!", i):
            j = s.find(">", i + 2)
            if j < 0:
                out.append(("junk", s[i:]))
                break
            out.append(("decl", s[i + 2:j]))
            i = j + 1
            continue
        if s.startswith("</", i):
            j = s.find(">", i + 2)
            if j < 0:
                out.append(("junk", s[i:]))
                break
            out.append(("end", s[i + 2:j].strip()))
            i = j + 1
            continue
        tok, i2 = _start_tag(s, i)
        out.append(tok)
        i = i2
    return out


def _start_tag(s, i):
    """s[i] == '<'.  Returns (token, next index)."""
    n = len(s)
    j = i + 1
    while j < n and s[j] not in WS + "/>":
        j += 1
    name = s[i + 1:j]
    if not name:
        return ("junk", s[i]), i + 1
    attrs = []
    while True:
        while j < n and s[j] in WS:
            j += 1
        if j >= n:
            return ("junk", s[i:]), n
        if s[j] == ">":
            return ("start", name, attrs, False), j + 1
        if s.startswith("/>", j):
            return ("start", name, attrs, True), j + 2
        if s[j] == "/":
            j += 1
            continue
        k = j
        while k < n and s[k] not in WS + "=/>":
            k += 1
        aname = s[j:k]
        j = k
        while j < n and s[j] in WS:
            j += 1
        if j < n and s[j] == "=":
            j += 1
            while j < n and s[j] in WS:
                j += 1
            if j < n and s[j] in "\"'":
                q = s[j]
                e = s.find(q, j + 1)
                if e < 0:
                    return ("junk", s[i:]), n
                attrs.append((aname, q, s[j + 1:e]))
                j = e + 1
            else:
                k = j
                while k < n and s[k] not in WS + ">":
                    k += 1
                attrs.append((aname, "", s[j:k]))
                j = k
        else:
            attrs.append((aname, None, None))


def unescape(s):
    return html.unescape(s)


def structure(tokens):
    """The document structure: everything except character data."""
    out = []
    for t in tokens:
        if t[0] == "start":
            out.append(("start", t[1], tuple(a[0] for a in t[2]), t[3]))
        elif t[0] in ("end",):
            out.append(t)
        elif t[0] in ("comment", "cdata", "pi", "decl", "junk"):
            out.append((t[0],))
    return out
