"""A pool of pure Python expressions rich in braces, quotes and '$',
used as ${...} bodies.  The oracle for their value is Python's own
``eval`` on the *source text the generator chose* (never on anything
Chameleon produced).

An expression case is {"src": <python source>, "vars": [names used]}.
"""
from __future__ import annotations

from hypothesis import strategies as st

# Templates over variable placeholders A and B (replaced by variable names).
# Each is valid for any value of A and B unless tagged.
POOL = [
    # (template, tags)
    ("A", ()),
    (" A ", ()),
    ("(A)", ()),
    ("'lit'", ()),
    ("'}'", ("brace",)),
    ("'{'", ("brace",)),
    ("'{}'", ("brace",)),
    ("'}{'", ("brace",)),
    ("'$'", ("dollar",)),
    ("'$$'", ("dollar",)),
    ("'${x}'", ("dollar", "brace")),
    ("'a ${A} b'", ("dollar", "brace")),
    ('"}"', ("brace", "dq")),
    ('"it\'s"', ("dq", "sq_in_dq")),
    ("'say \"hi\"'", ("dq",)),
    ("{'k': A}['k']", ("brace",)),
    ("{1: A, 2: B}[2]", ("brace",)),
    ("{'}': A}['}']", ("brace",)),
    ("[x for x in (A, B)][1]", ()),
    ("{k: v for k, v in [(1, A)]}[1]", ("brace",)),
    ("(lambda q: q)(A)", ()),
    ("(lambda q, r=B: (q, r))(A)[1]", ()),
    ("f'{A}'", ("brace", "fstr")),
    ("f'<{A}>{B}'", ("brace", "fstr", "lt")),
    ("f'{{{A}}}'", ("brace", "fstr")),
    ("f'{A!r:>4}'", ("brace", "fstr", "gt")),
    ("'%s-%s' % (A, B)", ()),
    ("'{}{}'.format(A, B)", ("brace",)),
    ("str(A) + str(B)", ()),
    ("'no' if A is None else A", ()),
    ("B if A else 'else'", ()),
    ("[A, B][0]", ()),
    ("(A, B)[-1]", ()),
    ("dict(x=A)['x']", ()),
    ("'}'.join(['1', '2'])", ("brace",)),
    ("len(str(A))", ()),
    ("1 + 2", ()),
    ("3 * (4 - 1)", ()),
    ("1 < 2", ("lt",)),
    ("2 > 1", ("gt",)),
    ("3 & 1", ("amp",)),
    ("'<b>' + str(A)", ("lt", "gt")),
    ("'a&b'", ("amp",)),
    # (non-ASCII letters may be written as named character entities)
    ("'\u03be'", ("nonlatin",)),
    ("'\u039e\u00e9' + str(A)", ("nonlatin",)),
    # ampersands that are written as such (\2) and do not start a character
    # entity (no terminating semicolon): they reach the evaluator unchanged
    ("'?a=1\2copy=2\2reg_id=3'", ("rawamp",)),
    ("'x\2para=1\2sect=2\2times'", ("rawamp",)),
    ("'R\2D \2amp \2lt \2not x'", ("rawamp",)),
    ("7 \2 3", ("rawamp",)),
    ("{A} and 'set'", ("brace",)),
    ("'x' \\\n + 'y'", ("newline",)),
    ("[\n 1,\n 2][1]", ("newline",)),
]


# pairs of different expressions whose texts differ only in characters that
# are not letters, digits or '_' (whatever an implementation derives from
# the text of an expression must keep them apart)
TWINS = [
    ("len(str(A)) - 1", "len(str(A)) + 1"),
    ("str(A) < str(B)", "str(A) > str(B)"),
    ("str(A) == str(B)", "str(A) != str(B)"),
    ("[A, B][0]", "(A, B)[0]"),
    ("'a-b'", "'a+b'"),
    ("'a b'", "'a.b'"),
    ("1 + 1", "1 * 1"),
]


def twins(names=("a", "b"), exclude=()):
    """Strategy: a pair of such expressions (same variables in both)."""
    def build(t, x, y):
        out = []
        for tpl in t:
            src = tpl.replace("A", "\0").replace("B", "\1")
            src = src.replace("\0", x).replace("\1", y)
            tags = [tag for tag, ch in (("lt", "<"), ("gt", ">"))
                    if ch in src]
            out.append({"src": src, "tags": tags})
        return out
    pool = [t for t in TWINS if not (
        set(exclude) & {"lt", "gt"} and any(c in "".join(t) for c in "<>"))]
    return st.builds(build, st.sampled_from(pool), st.sampled_from(names),
                     st.sampled_from(names))


def exprs(names=("a", "b"), exclude=()):
    """Strategy: {"src": ..., "tags": [...]}"""
    pool = [(t, tags) for (t, tags) in POOL
            if not (set(tags) & set(exclude))]

    def build(t, x, y):
        tpl, tags = t
        src = tpl.replace("A", "\0").replace("B", "\1")
        src = src.replace("\0", x).replace("\1", y)
        return {"src": src, "tags": list(tags)}
    return st.builds(build, st.sampled_from(pool), st.sampled_from(names),
                     st.sampled_from(names))


def evaluate(src, env):
    """Reference value of the expression: Python itself."""
    return eval(compile(src.strip().replace("\2", "&"), "<expr>", "eval"),
                {}, dict(env))


def encode_for_markup(src, attr_quote=None):
    """Write expression source inside XML text or a quoted attribute the way
    a template author must: & < > (and the attribute's quote) as entities."""
    out = src.replace("&", "&amp;").replace("<", "&lt;").replace(">", "&gt;")
    if attr_quote == '"':
        out = out.replace('"', "&quot;")
    elif attr_quote == "'":
        out = out.replace("'", "&#39;")
    return out
