"""Shared runner: sharded Hypothesis search with collect-then-shrink,
bucketing, known findings, replay and evidence.

A *check* module exposes ``CHECK = Check(...)`` made of one or more
``Part`` objects.  A part owns a Hypothesis strategy producing JSON-able
*cases* and an oracle ``oracle(case) -> None | Mismatch``.  Every random
choice is made by Hypothesis, seeded from VERIF_SEED; a shrunk failing
case is the replay file.

Exit codes: 0 held / 1 violation (``VIOLATION property=.. replay=..``) /
2 harness error or inconclusive.
"""
from __future__ import annotations

import argparse
import hashlib
import importlib
import json
import multiprocessing
import os
import sys
import time
import traceback

ROOT = os.path.dirname(os.path.dirname(os.path.abspath(__file__)))
NCPU = min(16, os.cpu_count() or 1)


class HarnessError(Exception):
    """The harness/model itself failed: never reported as a violation."""


class Mismatch:
    """An oracle disagreement.  ``bucket`` is a short stable class name
    used to group failures by (probable) root cause; ``detail`` is free
    JSON-able data shown in the replay file."""

    def __init__(self, bucket, detail=None):
        self.bucket = str(bucket)
        self.detail = detail

    def to_json(self):
        return {"bucket": self.bucket, "detail": self.detail}


class Part:
    """One generated search inside a check."""

    name = "main"
    #: examples per tier (total over all shards)
    examples = {"quick": 1000, "thorough": 20000}
    #: label names that must appear in at least ``floor`` of the cases
    floors: dict = {}

    def strategy(self, tier):
        raise NotImplementedError

    def oracle(self, case):
        raise NotImplementedError

    def nontrivial(self, case) -> bool:
        return True

    def labels(self, case):
        return ()

    def known(self, case, mismatch):
        """Return the key of the open known finding that explains this
        mismatch, or None."""
        return None

    def sample(self, case):
        """What is shown of a case in the evidence file."""
        return case

    def setup_shard(self, tier, shard):
        """Hook called once per shard process before generation."""

    def teardown_shard(self):
        pass


class Stage:
    """A non-Hypothesis stage (exhaustive enumeration, fuzz campaign,
    schedule enumeration).  ``run`` returns a dict:
    {evaluations, distinct_nontrivial, failures: [(case, Mismatch)],
     labels: {..}, samples: [..], info: {...}}"""

    name = "stage"
    tiers = ("quick", "thorough")

    def run(self, tier, seed, check):
        raise NotImplementedError

    def oracle(self, case):
        raise NotImplementedError

    def known(self, case, mismatch):
        return None


class Check:
    def __init__(self, pid, level, rule, parts=(), stages=(), assumptions=(),
                 technique=""):
        self.pid = pid
        self.level = level
        self.rule = rule
        self.parts = {p.name: p for p in parts}
        self.stages = {s.name: s for s in stages}
        self.assumptions = list(assumptions)
        self.technique = technique

    def find(self, name):
        if name in self.parts:
            return self.parts[name]
        if name in self.stages:
            return self.stages[name]
        raise HarnessError("unknown part %r" % (name,))


# ---------------------------------------------------------------------------

def canon(case) -> str:
    return json.dumps(case, sort_keys=True, ensure_ascii=True, default=repr)


def sha(case) -> str:
    return hashlib.sha1(canon(case).encode()).hexdigest()


def _evaluate(part, case):
    """Run the oracle; returns ('ok'|'mismatch'|'harness', payload)."""
    try:
        m = part.oracle(case)
    except HarnessError as e:
        return "harness", "".join(traceback.format_exception(e))
    except RecursionError as e:  # model recursion: harness problem
        return "harness", "RecursionError in oracle"
    except Exception as e:  # noqa: BLE001 - anything else is ours
        return "harness", "".join(traceback.format_exception(e))
    except BaseException as e:
        # a planted KeyboardInterrupt/SystemExit that escaped: ours too
        if getattr(e, "_verif_planted", False):
            return "harness", "planted %s escaped the oracle" % type(
                e).__name__
        raise
    if m is None:
        return "ok", None
    if not isinstance(m, Mismatch):
        return "harness", "oracle returned %r" % (m,)
    return "mismatch", m


def _shard_worker(args):
    modname, partname, shard, n, seed, tier = args
    import hypothesis
    from hypothesis import HealthCheck, Phase, given, settings

    mod = importlib.import_module(modname)
    part = mod.CHECK.parts[partname]
    part.setup_shard(tier, shard)
    res = {
        "part": partname, "shard": shard, "evaluations": 0,
        "nontrivial": set(), "labels": {}, "buckets": {}, "harness": [],
        "samples": [], "known": {}, "error": None,
    }
    strat = part.strategy(tier)

    def body(case):
        res["evaluations"] += 1
        nt = False
        try:
            nt = bool(part.nontrivial(case))
            for lab in part.labels(case):
                res["labels"][lab] = res["labels"].get(lab, 0) + 1
        except Exception as e:  # noqa: BLE001
            res["harness"].append({"case": case, "tb": "".join(
                traceback.format_exception(e))})
            return
        if nt:
            res["nontrivial"].add(sha(case))
            if len(res["samples"]) < 2 or (
                    res["evaluations"] % 97 == 0 and len(res["samples"]) < 4):
                res["samples"].append(part.sample(case))
        kind, payload = _evaluate(part, case)
        if kind == "ok":
            return
        if kind == "harness":
            if len(res["harness"]) < 3:
                res["harness"].append({"case": case, "tb": payload})
            return
        key = None
        try:
            key = part.known(case, payload)
        except Exception as e:  # noqa: BLE001
            res["harness"].append({"case": case, "tb": "".join(
                traceback.format_exception(e))})
            return
        if key is not None:
            res["known"][key] = res["known"].get(key, 0) + 1
            return
        b = res["buckets"].setdefault(
            payload.bucket, {"count": 0, "first": None, "detail": None,
                             "index": None})
        b["count"] += 1
        if b["first"] is None:
            b["first"] = case
            b["detail"] = payload.detail
            b["index"] = res["evaluations"]

    test = settings(
        max_examples=n, database=None, deadline=None, derandomize=False,
        report_multiple_bugs=False, phases=[Phase.generate],
        suppress_health_check=[HealthCheck.too_slow,
                               HealthCheck.data_too_large,
                               HealthCheck.large_base_example,
                               HealthCheck.filter_too_much],
    )(hypothesis.seed(seed * 1000 + shard)(given(strat)(body)))
    try:
        test()
    except Exception as e:  # noqa: BLE001
        res["error"] = "".join(traceback.format_exception(e))
    finally:
        try:
            part.teardown_shard()
        except Exception:  # noqa: BLE001
            pass
    res["nontrivial"] = sorted(res["nontrivial"])
    return res


def _shrink_worker(args):
    """Re-find the first failure of ``bucket`` in one shard and let
    Hypothesis shrink it; returns the smallest failing case seen."""
    modname, partname, shard, n, seed, tier, bucket, budget = args
    import hypothesis
    from hypothesis import HealthCheck, Phase, given, settings

    mod = importlib.import_module(modname)
    part = mod.CHECK.parts[partname]
    part.setup_shard(tier, shard)
    best = {"case": None, "detail": None}
    deadline = time.monotonic() + budget

    class _Fail(Exception):
        pass

    def body(case):
        if time.monotonic() > deadline and best["case"] is not None:
            return
        kind, payload = _evaluate(part, case)
        if kind != "mismatch" or payload.bucket != bucket:
            return
        try:
            if part.known(case, payload) is not None:
                return
        except Exception:  # noqa: BLE001
            return
        best["case"] = case
        best["detail"] = payload.detail
        raise _Fail(bucket)

    test = settings(
        max_examples=n, database=None, deadline=None, derandomize=False,
        report_multiple_bugs=False, phases=[Phase.generate, Phase.shrink],
        suppress_health_check=list(HealthCheck),
    )(hypothesis.seed(seed * 1000 + shard)(given(part.strategy(tier))(body)))
    try:
        test()
    except BaseException:  # noqa: BLE001 - result is in ``best``
        pass
    finally:
        try:
            part.teardown_shard()
        except Exception:  # noqa: BLE001
            pass
    return best


# ---------------------------------------------------------------------------

def load_known(pid):
    path = os.path.join(ROOT, "KNOWN_FINDINGS.json")
    if not os.path.exists(path):
        return []
    with open(path) as f:
        data = json.load(f)
    return [e for e in data.get("findings", []) if e.get("property") == pid]


def write_replay(pid, partname, case, mismatch_json):
    d = os.path.join(os.environ.get("VERIF_REPLAY_DIR") or
                     os.path.join(ROOT, "replays"), pid)
    os.makedirs(d, exist_ok=True)
    doc = {"property": pid, "part": partname, "case": case,
           "mismatch": mismatch_json}
    path = os.path.join(d, sha(doc)[:16] + ".json")
    with open(path, "w") as f:
        json.dump(doc, f, indent=1, sort_keys=True, default=repr)
    return path


def replay_file(check, path):
    with open(path) as f:
        doc = json.load(f)
    part = check.find(doc.get("part", "main"))
    kind, payload = _evaluate(part, doc["case"])
    return part, doc, kind, payload


def main(modname, argv=None):
    t0 = time.time()
    mod = importlib.import_module(modname)
    check: Check = mod.CHECK
    ap = argparse.ArgumentParser(prog="check " + check.pid)
    ap.add_argument("--tier", default=os.environ.get("VERIF_TIER") or "quick",
                    choices=["quick", "thorough"])
    ap.add_argument("--replay")
    ap.add_argument("--scale", type=float,
                    default=float(os.environ.get("VERIF_SCALE", "1")))
    ap.add_argument("--only", help="run only this part/stage")
    ns = ap.parse_args(argv)
    try:
        seed = int(os.environ.get("VERIF_SEED") or "1")
    except ValueError:
        seed = 1
    pid = check.pid

    if ns.replay:
        part, doc, kind, payload = replay_file(check, ns.replay)
        if kind == "ok":
            print("replay: property %s holds on %s" % (pid, ns.replay))
            return 0
        if kind == "harness":
            print("HARNESS-ERROR replaying %s\n%s" % (ns.replay, payload))
            return 2
        key = part.known(doc["case"], payload)
        if key is not None:
            print("KNOWN-FINDING: property=%s %s (replay)" % (pid, key))
            return 0
        print("replay mismatch: %s" % json.dumps(payload.to_json(),
                                                  default=repr)[:2000])
        print("VIOLATION property=%s replay=%s" % (pid, ns.replay))
        return 1

    violations = []     # (partname, case, mismatch_json)
    harness_errors = []
    known_seen = {}
    evaluations = 0
    nontrivial = set()
    labels = {}
    samples = []
    info = {}

    # 1. known findings: replay each open witness
    known = load_known(pid)
    for e in known:
        if e.get("status") != "open":
            continue
        part = check.find(e.get("part", "main"))
        kind, payload = _evaluate(part, e["witness"])
        evaluations += 1
        if kind == "mismatch" and part.known(e["witness"], payload) == e["key"]:
            print("KNOWN-FINDING: property=%s %s: %s" % (
                pid, e["key"], e["what"]))
        elif kind == "ok":
            print("note: known finding %s no longer reproduces on this tree"
                  % e["key"])
        elif kind == "harness":
            harness_errors.append({"where": "known " + e["key"],
                                   "tb": payload})
        else:
            violations.append((e.get("part", "main"), e["witness"],
                               payload.to_json()))

    # 2. regression replays (shrunk cases of fixed defects and mutants)
    rdir = os.path.join(ROOT, "regress", pid)
    n_regress = 0
    if os.path.isdir(rdir):
        for fn in sorted(os.listdir(rdir)):
            if not fn.endswith(".json"):
                continue
            part, doc, kind, payload = replay_file(
                check, os.path.join(rdir, fn))
            n_regress += 1
            evaluations += 1
            if kind == "harness":
                harness_errors.append({"where": fn, "tb": payload})
            elif kind == "mismatch":
                key = part.known(doc["case"], payload)
                if key is None:
                    violations.append((doc.get("part", "main"), doc["case"],
                                       payload.to_json()))
                else:
                    known_seen[key] = known_seen.get(key, 0) + 1
    info["regress_replayed"] = n_regress

    # 3. generated search, sharded
    ctx = multiprocessing.get_context("fork")
    tasks = []
    for pname, part in check.parts.items():
        if ns.only and ns.only != pname:
            continue
        total = int(part.examples[ns.tier] * ns.scale)
        if total <= 0:
            continue
        nshards = min(NCPU, max(1, total // 25))
        per = -(-total // nshards)
        for s in range(nshards):
            tasks.append((modname, pname, s, per, seed, ns.tier))
    results = []
    if tasks:
        with ctx.Pool(min(NCPU, len(tasks))) as pool:
            # (a worker that dies would make a plain map() wait forever)
            limit = 1500 if ns.tier == "quick" else 6 * 3600
            try:
                results = pool.map_async(_shard_worker, tasks,
                                         chunksize=1).get(timeout=limit)
            except multiprocessing.TimeoutError:
                print("HARNESS-ERROR: shard workers did not finish within "
                      "%d s" % limit)
                pool.terminate()
                return 2
    buckets = {}
    per_part = {}
    for r in results:
        evaluations += r["evaluations"]
        pp = per_part.setdefault(r["part"], {"evaluations": 0,
                                             "nontrivial": set()})
        pp["evaluations"] += r["evaluations"]
        pp["nontrivial"].update(r["nontrivial"])
        nontrivial.update(r["part"] + ":" + h for h in r["nontrivial"])
        for k, v in r["labels"].items():
            kk = r["part"] + "." + k
            labels[kk] = labels.get(kk, 0) + v
        for k, v in r["known"].items():
            known_seen[k] = known_seen.get(k, 0) + v
        if len(samples) < 6:
            samples.extend(r["samples"][: max(1, 6 - len(samples))][:2])
        for h in r["harness"]:
            harness_errors.append({"where": "%s shard %d" % (
                r["part"], r["shard"]), **h})
        if r["error"]:
            harness_errors.append({"where": "%s shard %d" % (
                r["part"], r["shard"]), "tb": r["error"]})
        for b, v in r["buckets"].items():
            cur = buckets.get((r["part"], b))
            if cur is None or (v["index"], r["shard"]) < (
                    cur["index"], cur["shard"]):
                n = v["count"] + (cur["count"] if cur else 0)
                buckets[(r["part"], b)] = dict(v, shard=r["shard"], count=n)
            else:
                cur["count"] += v["count"]

    # floors on label frequencies (generator health)
    for pname, part in check.parts.items():
        pe = per_part.get(pname, {}).get("evaluations", 0)
        for lab, floor in part.floors.items():
            got = labels.get(pname + "." + lab, 0)
            if pe and got < floor * pe:
                harness_errors.append({
                    "where": "generator health",
                    "tb": "label %s.%s seen in %d of %d cases (< %.1f%%)" % (
                        pname, lab, got, pe, floor * 100)})

    # 4. shrink new violations (one per bucket, at most 6 buckets)
    if buckets:
        budget = 45 if ns.tier == "quick" else 180
        todo = sorted(buckets.items(), key=lambda kv: -kv[1]["count"])[:6]
        sargs = []
        for (pname, b), v in todo:
            total = int(check.parts[pname].examples[ns.tier] * ns.scale)
            nshards = min(NCPU, max(1, total // 25))
            per = -(-total // nshards)
            sargs.append((modname, pname, v["shard"], per, seed, ns.tier, b,
                          budget))
        with ctx.Pool(min(NCPU, len(sargs))) as pool:
            try:
                shrunk = pool.map_async(_shrink_worker, sargs,
                                        chunksize=1).get(timeout=budget * 4)
            except multiprocessing.TimeoutError:
                pool.terminate()
                shrunk = [{"case": None, "detail": None} for _ in sargs]
        for ((pname, b), v), best in zip(todo, shrunk):
            case = best["case"] if best["case"] is not None else v["first"]
            detail = best["detail"] if best["case"] is not None \
                else v["detail"]
            violations.append((pname, case, {
                "bucket": b, "detail": detail, "count": v["count"],
                "shrunk": best["case"] is not None}))

    # 5. extra stages
    for sname, stage in check.stages.items():
        if ns.only and ns.only != sname:
            continue
        if ns.tier not in stage.tiers:
            continue
        try:
            r = stage.run(ns.tier, seed, check)
        except HarnessError as e:
            harness_errors.append({"where": "stage " + sname, "tb": "".join(
                traceback.format_exception(e))})
            continue
        except Exception as e:  # noqa: BLE001
            harness_errors.append({"where": "stage " + sname, "tb": "".join(
                traceback.format_exception(e))})
            continue
        evaluations += r.get("evaluations", 0)
        for h in r.get("nontrivial_ids", ()):
            nontrivial.add(sname + ":" + str(h))
        info[sname] = r.get("info", {})
        for k, v in r.get("labels", {}).items():
            labels[sname + "." + k] = labels.get(sname + "." + k, 0) + v
        samples.extend(r.get("samples", [])[:2])
        for k, v in r.get("known", {}).items():
            known_seen[k] = known_seen.get(k, 0) + v
        seen_b = set()
        for case, m in r.get("failures", []):
            if m.bucket in seen_b:
                continue
            seen_b.add(m.bucket)
            violations.append((sname, case, m.to_json()))
        for h in r.get("harness", []):
            harness_errors.append({"where": "stage " + sname, "tb": h})

    # 6. report
    replay_paths = []
    for pname, case, mj in violations:
        replay_paths.append(write_replay(pid, pname, case, mj))

    wall = time.time() - t0
    ev = {
        "property_id": pid,
        "tier": ns.tier,
        "seed": seed,
        "level": check.level,
        "coverage": {
            "evaluations": evaluations,
            "distinct_nontrivial": len(nontrivial),
            "rule": check.rule,
            "samples": samples[:6] or ["(no samples)"],
            "labels": dict(sorted(labels.items())),
            "per_part": {k: {"evaluations": v["evaluations"],
                             "distinct_nontrivial": len(v["nontrivial"])}
                         for k, v in per_part.items()},
            "known_findings_seen": known_seen,
            "stages": info,
            "technique": check.technique,
        },
        "assumptions": check.assumptions,
        "wall_s": round(wall, 2),
        "violations": len(violations),
    }
    # (VERIF_EVIDENCE_DIR is used by the mutant self-test so that runs
    # against scratch copies do not overwrite the real evidence)
    evdir = os.environ.get("VERIF_EVIDENCE_DIR") or os.path.join(
        ROOT, "evidence")
    os.makedirs(evdir, exist_ok=True)
    with open(os.path.join(evdir, pid + ".json"), "w") as f:
        json.dump(ev, f, indent=1, sort_keys=True, default=repr)

    print("%s tier=%s seed=%d evaluations=%d nontrivial=%d known=%s wall=%.1fs"
          % (pid, ns.tier, seed, evaluations, len(nontrivial),
             json.dumps(known_seen, sort_keys=True), wall))
    if violations:
        for (pname, case, mj), path in zip(violations, replay_paths):
            print("mismatch part=%s bucket=%s count=%s" % (
                pname, mj.get("bucket"), mj.get("count", 1)))
            print("VIOLATION property=%s replay=%s" % (pid, path))
        return 1
    if harness_errors:
        for h in harness_errors[:5]:
            print("HARNESS-ERROR at %s\n%s" % (h.get("where"), h.get("tb")))
            if "case" in h:
                print("case: " + canon(h["case"])[:3000])
        return 2
    if len(nontrivial) < 2:
        print("INCONCLUSIVE: fewer than 2 non-trivial cases")
        return 2
    return 0
