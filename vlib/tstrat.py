"""Hypothesis strategies for abstract templates (vlib/tmodel.py).

All strategies return JSON-able structures.  Scope-dependent choices
(which names are defined where) are tracked inside one composite draw so
that generated templates are well-formed by construction.
"""
from __future__ import annotations

import copy

from hypothesis import strategies as st

from vlib import values

TAGS = ["div", "span", "p", "ul", "li", "b", "a", "td", "em", "x-y", "é",
        # (names of HTML void elements are names like any other)
        "img", "input"]
ATTR_NAMES = ["class", "id", "title", "href", "data-x", "lang", "Style"]
SCALAR_VARS = ["s0", "s1", "s2"]
SEQ_VARS = ["q0", "q1"]
LOCALS = ["l0", "l1", "l2"]
GLOBALS = ["g0", "g1"]
LOOPVARS = ["i0", "i1", "j"]
LIT_TEXT = ["a", "b c", "x", " ", "\n", "\n  ", "1 > 0", "é", "&amp;", "t;t",
            "日本", "(", ")", "-", "q&lt;r"]


class Ctx:
    """Mutable generation context (lives inside one composite draw)."""

    def __init__(self, draw, opts):
        self.draw = draw
        self.opts = opts
        self.tag = 0
        self.scalars = list(SCALAR_VARS)      # names usable as scalar values
        self.seqs = list(SEQ_VARS)
        self.switch_depth = 0
        self.case_bias = False
        self.def_stack = []
        self.rep_stack = []
        self.n_elems = 0
        self.eid = 0

    def newtag(self, kind):
        """Recorder tag  e<element>.<kind><n>  (element 0 = top level)."""
        self.tag += 1
        return "e%d.%s%d" % (self.eid, kind, self.tag)


def lit_text():
    return st.lists(st.sampled_from(LIT_TEXT), min_size=1, max_size=3).map(
        "".join)


def const_scalar():
    return st.sampled_from([
        "1", "0", "2", "-1", "1.5", "'a'", "'b c'", "''", "'<x>'", "'a&b'",
        "'é'", "None", "True", "False", "'0'", "'q\"r'"])


def scalar_expr(ctx, depth=2, allow_none=True):
    d = ctx.draw
    choice = d(st.integers(0, 20 if depth > 0 else 5))
    if choice == 20:
        # a parameter whose default value is the template variable of the
        # same name (or another one)
        p = d(st.sampled_from(SCALAR_VARS + ["x"]))
        v = p if p != "x" and d(st.booleans()) else d(
            st.sampled_from(SCALAR_VARS))
        return ["lambdadef", p, ["var", v], d(st.sampled_from([
            ["var", p], ["call", "str", [["var", p]]],
            ["binop", "==", ["var", p], ["var", "s1"]]]))]
    if choice >= 18:
        # a callable that the object offers as an ITEM only (mapping key /
        # __getitem__), or as a real attribute, called at once
        obj, name = d(st.sampled_from([("o1", "fn"), ("o1", "fn"),
                                       ("d1", "fn"), ("o2", "fn")]))
        return ["callv", ["attr", ["var", obj], name],
                [["const", d(st.sampled_from(["1", "'a'", "'<'"]))]]]
    if choice == 12:
        # lambda whose parameter shadows a template variable (or a builtin)
        p = d(st.sampled_from(SCALAR_VARS + ["id", "x"]))
        return ["lambda", [p], d(st.sampled_from([
            ["var", p], ["binop", "==", ["var", p], ["var", "s0"]],
            ["call", "str", [["var", p]]],
            # an inner function that reads the outer function's parameter
            ["lambda", ["lz"], ["call", "str", [["var", p]]],
             [["const", "1"]]]])), [scalar_expr(ctx, depth - 1)]]
    if choice == 13:
        # the loop variable may be named like a template variable: it must
        # shadow it inside the comprehension and leave it alone outside
        cv = d(st.sampled_from(["cx", "s0", "s1", "id", "s2", "*seq"]))
        if cv == "*seq":
            # ... and like the very sequence it runs over: the first
            # iterable belongs to the enclosing scope ([q0 for q0 in q0])
            cv = d(st.sampled_from(ctx.seqs))
            return ["call", "len", [["listcomp", ["var", cv], cv,
                                     ["var", cv]]]]
        lc = ["call", "len", [["listcomp", ["var", cv], cv,
                               ["const", d(st.sampled_from(
                                   ["(1, 2)", "[]", "'abc'"]))]]]]
        if cv != "cx" and d(st.booleans()):
            # ... and read the template variable right afterwards
            return ["binop", "and", lc, ["var", cv]]
        return lc
    if choice == 14:
        return ["fstr", [["lit", d(st.sampled_from(["a", "{", "} ", "é"]))],
                         ["e", d(st.sampled_from(
                             [["var", "s0"], ["const", "1"],
                              ["var", "s2"]]))],
                         ["lit", d(st.sampled_from(["", "-", "}{"]))]]]
    if choice == 15:
        # a dict method whose name is also a key of the dict
        return ["call", "len", [["callv", ["attr", ["var", "d0"], d(
            st.sampled_from(["items", "keys", "values"]))], []]]]
    if choice == 16:
        return ["var", d(st.sampled_from(["id", "s0", "s1"]))]
    if choice == 17:
        # NOT idempotent: every evaluation consumes one item
        return ["call", "next", [["var", "it0"], ["const", "'end'"]]]
    if choice <= 1:
        c = d(const_scalar())
        if c == "None" and not allow_none:
            c = "'n'"
        return ["const", c]
    if choice <= 4:
        return ["var", d(st.sampled_from(ctx.scalars))]
    if choice == 5:
        return ["call", "len", [["var", d(st.sampled_from(ctx.seqs))]]] \
            if ctx.opts.get("len_ok", True) else ["const", "3"]
    if choice == 6:
        return ["attr", ["var", "o0"], d(st.sampled_from(["a", "b"]))]
    if choice == 7:
        # attribute access falling back to item lookup
        return ["attr", ["var", "d0"], d(st.sampled_from(["k", "m"]))]
    if choice == 8:
        return ["item", ["var", "d0"], d(st.sampled_from(["'k'", "'m'"]))]
    if choice == 9:
        return ["cond", scalar_expr(ctx, depth - 1),
                scalar_expr(ctx, depth - 1, allow_none),
                scalar_expr(ctx, depth - 1, allow_none)]
    if choice == 10:
        return ["call", "str", [scalar_expr(ctx, depth - 1)]]
    return ["binop", d(st.sampled_from(["==", "!=", "and", "or"])),
            scalar_expr(ctx, depth - 1), scalar_expr(ctx, depth - 1)]


CAUGHT_CLS = ["AttributeError", "NameError", "LookupError", "KeyError",
              "IndexError", "TypeError", "ValueError", "UnicodeError"]
UNCAUGHT_CLS = ["ZeroDivisionError", "RuntimeError", "OSError",
                "AssertionError", "StopIteration", "CustomError", "StrError"]
NATURAL_FAIL = [["var", "nope"], ["attr", ["var", "o0"], "zz"],
                ["item", ["var", "d0"], "'zz'"],
                ["call", "len", [["const", "1"]]],
                ["call", "int", [["const", "'x'"]]],
                ["item", ["const", "[1]"], "5"],
                ["attr", ["var", "d0"], "zz"]]
STRING_LIT = ["a", "x y", " ", "-", "(", "é", "1 > 0", " | ", "a.b", "$$",
              "100%", ":"]


def string_body(ctx):
    d = ctx.draw
    parts = []
    for _ in range(d(st.integers(1, 4))):
        c = d(st.integers(0, 3))
        if c == 0:
            parts.append(["v", d(st.sampled_from(ctx.scalars))])
            # "$name" must not run into following identifier characters
            parts.append(["lit", d(st.sampled_from([" ", "-", ".", "/"]))])
        elif c == 1:
            parts.append(["e", scalar_expr(ctx, 1)])
        else:
            t = d(st.sampled_from(STRING_LIT))
            if parts and parts[-1][0] == "lit":
                parts[-1][1] += t
            else:
                parts.append(["lit", t])
    # leading/trailing blanks of a statement argument are not significant
    # (tal:omit-tag strips them): keep the body free of them at its ends
    if parts[-1][0] == "lit" and parts[-1][1][-1:].isspace():
        parts[-1][1] += "."
    elif parts[-1][0] != "lit":
        pass
    if parts[0][0] == "lit" and parts[0][1][:1].isspace():
        parts[0][1] = "_" + parts[0][1]
    return ["string", parts]


def tales_expr(ctx, kind, site):
    """A TALES expression: pipe of 1..4 alternatives, optional type
    prefixes.  site: 'value' | 'bool' | 'seq' (what the statement needs)."""
    d = ctx.draw
    tag = ctx.newtag(kind)
    n = d(st.sampled_from([1, 1, 2, 2, 3, 4]))
    alts = []
    for i in range(n):
        sub = tag + "." + "abcd"[i]
        last = i == n - 1
        c = d(st.integers(0, 9))
        if not last and c <= 7:
            # an alternative that fails
            f = d(st.integers(0, 9))
            if f <= 4:
                alts.append(["boom", d(st.sampled_from(CAUGHT_CLS)), sub])
            elif f <= 5:
                alts.append(["boom", d(st.sampled_from(UNCAUGHT_CLS)), sub])
            else:
                alts.append(["binop", "and", ["rec", sub, ["const", "1"]],
                             d(st.sampled_from(NATURAL_FAIL))])
            continue
        if last and c == 0 and site != "seq":
            alts.append(["boom", d(st.sampled_from(
                CAUGHT_CLS + UNCAUGHT_CLS)), sub])
            continue
        if site == "seq":
            good = ["rec", sub, seq_expr(ctx)]
        else:
            good = ["rec", sub, scalar_expr(ctx)]
        if last and site != "seq":
            p = d(st.integers(0, 11))
            if p == 0 and kind not in ("t", "sa"):
                # (inside ${...} a string: body would swallow a following
                # "}...${" by the documented longest-match rule)
                good = ["prefix", "string", string_body(ctx)]
            elif p == 1:
                good = ["prefix", "not", good]
            elif p == 2 and d(st.booleans()):
                # a bare name: a template variable, a Python builtin (found
                # through the fallback of name resolution) or nothing at all
                good = ["prefix", "exists", ["var", d(st.sampled_from(
                    ["len", "max", "id", "s0", "nosuchname", "type",
                     "d0"]))]]
            elif p == 2:
                good = ["prefix", "exists", ["rec", sub, d(st.sampled_from(
                    NATURAL_FAIL + [["var", "s0"], ["var", "d0"]]))]]
            elif p == 3:
                good = ["prefix", "python", good]
            elif p == 4 and site == "value":
                good = ["prefix", "structure",
                        ["call", "str", [good]]]
        alts.append(good)
    e = alts[0] if n == 1 else ["pipe", alts]
    if site != "seq":
        w = d(st.integers(0, 11))
        if w == 0:
            e = ["prefix", "not", e]
        elif w == 1:
            e = ["prefix", "exists", e]
        elif w == 2:
            e = ["prefix", "not", ["prefix", "exists", e]]
        elif w == 3:
            e = ["prefix", "python", e]
    return e


def rec(ctx, kind, e, site="value"):
    fp = ctx.opts.get("fail_p")
    if fp and e[0] not in ("default", "nothing") and \
            ctx.draw(st.integers(0, fp)) == 0:
        # a planted failure: logs its tag, then raises
        pool = CAUGHT_CLS + UNCAUGHT_CLS
        if ctx.opts.get("fail_classes"):
            pool = pool + ["FileNotFoundError", "TimeoutError", "OSError",
                           "ArithmeticError", "NotImplementedError"]
        if ctx.draw(st.integers(0, 11)) == 0:
            pool = ["KeyboardInterrupt", "SystemExit", "RecursionError",
                    "GeneratorExit"]
        return ["boom", ctx.draw(st.sampled_from(pool)), ctx.newtag(kind)]
    if ctx.opts.get("tales") and ctx.draw(st.integers(0, 2)) != 0 and \
            e[0] not in ("default", "nothing"):
        return tales_expr(ctx, kind, site)
    if ctx.opts.get("rec", True):
        return ["rec", ctx.newtag(kind), e]
    return e


def seq_expr(ctx):
    d = ctx.draw
    c = d(st.integers(0, 9))
    if c <= 4:
        return ["var", d(st.sampled_from(ctx.seqs))]
    if c == 5:
        return ["const", d(st.sampled_from(
            ["[1, 2]", "(1, 2, 3)", "[]", "['a', 'b']", "()", "[None]"]))]
    if c == 6:
        return ["call", "list", [["var", d(st.sampled_from(ctx.seqs))]]]
    if c == 7:
        return ["const", "None"]
    if c == 8:
        return ["const", d(st.sampled_from(["'ab'", "''"]))]
    return ["call", "sorted", [["const", "[3, 1, 2]"]]]


def text_node(ctx, interp_p=2):
    d = ctx.draw
    parts = []
    n = d(st.integers(1, 3))
    for _ in range(n):
        if ctx.opts.get("global_probes", True) and d(st.integers(0, 7)) == 0:
            # is a global definition visible here?
            parts.append(["interp", ["pipe", [
                ["var", d(st.sampled_from(GLOBALS))], ["const", "'nog'"]]]])
            continue
        if ctx.opts.get("local_probes") and d(st.integers(0, 5)) == 0:
            # ... and a local one, or a loop variable (not after its element)
            parts.append(["interp", ["pipe", [
                ["var", d(st.sampled_from(LOCALS + LOOPVARS))],
                ["const", "'nol'"]]]])
            continue
        if ctx.opts.get("repeat_probes") and d(st.integers(0, 5)) == 0:
            # state of a loop as seen from anywhere (also outside the loop)
            parts.append(["interp", ["pipe", [
                ["attr", ["attr", ["var", "repeat"],
                          d(st.sampled_from(LOOPVARS))],
                 d(st.sampled_from(["length", "index"]))],
                ["const", "'norep'"]]]])
            continue
        if d(st.integers(0, interp_p)) == 0:
            parts.append(["interp", rec(ctx, "t", scalar_expr(ctx))])
        else:
            p = d(lit_text())
            if parts and parts[-1][0] == "lit":
                parts[-1][1] += p
            else:
                parts.append(["lit", p])
    interps = [p for p in parts if p[0] == "interp"]
    if interps and d(st.integers(0, 4)) == 0:
        # the very same expression text twice in one text node: each
        # occurrence is an evaluation of its own
        import copy
        parts.append(["lit", " "])
        parts.append(copy.deepcopy(d(st.sampled_from(interps))))
    return ["text", parts]


FOREIGN_ATTRS = ["foo:bar", "data-x", "data-x-y", "data-x-y-z", "xml:lang",
                 "@click", "v-on", "foo:data-a-b", "data-foo-bar",
                 "data-xml-lang", "data-xmlns-x"]
REBIND_PREFIXES = ["t", "tal2", "x-tal", "T", "foo2"]
UNDECLARED_ATTRS = ["v-bind:id", "x:y"]


def static_attrs(ctx, maxn=3):
    d = ctx.draw
    out, seen = [], set()
    if ctx.opts.get("foreign"):
        pool = FOREIGN_ATTRS + (UNDECLARED_ATTRS if ctx.opts.get(
            "undeclared") else [])
        for _ in range(d(st.integers(0, 2))):
            n = d(st.sampled_from(pool))
            if n in seen:
                continue
            seen.add(n)
            out.append([d(st.sampled_from([" ", "  "])), n,
                        d(st.sampled_from(['"', "'"])),
                        [["lit", d(st.sampled_from(["1", "go()", "a b"]))]]])
            if ctx.opts.get("dup_attrs") and n not in ATTR_NAMES and \
                    d(st.integers(0, 3)) == 0:
                # tag soup: the same attribute written twice
                out.append([" ", n, '"', [["lit", "dup"]]])
    for _ in range(d(st.integers(0, maxn))):
        name = d(st.sampled_from(ATTR_NAMES))
        if name.lower() in seen:
            continue
        seen.add(name.lower())
        quote = d(st.sampled_from(['"', '"', "'"]))
        parts = []
        if d(st.integers(0, 3)) == 0:
            if d(st.booleans()):
                parts.append(["lit", d(st.sampled_from(["p-", "a b ", "x"]))])
            parts.append(["interp", rec(ctx, "sa", scalar_expr(ctx, 1))])
            if d(st.booleans()):
                parts.append(["lit", d(st.sampled_from(["-s", " z"]))])
        else:
            parts.append(["lit", d(st.sampled_from(
                ["v", "a b", "", "x&amp;y", "1", "é", "a'b" if quote == '"'
                 else 'a"b', "p > q"]))])
        out.append([d(st.sampled_from([" ", " ", "  ", "\n "])), name, quote,
                    parts])
    return out


def element(ctx, depth):
    d = ctx.draw
    ctx.n_elems += 1
    outer_eid = ctx.eid
    ctx.eid = ctx.n_elems
    is_ns = bool(ctx.opts.get("ns_elems")) and d(st.integers(0, 5)) == 0
    el = {"name": d(st.sampled_from(TAGS)),
          "attrs": [] if is_ns else static_attrs(ctx),
          "stmts": {}, "children": [], "order": d(st.lists(
              st.integers(0, 5), min_size=1, max_size=4)),
          "close_space": d(st.sampled_from(["", "", " "]))}
    stmts = el["stmts"]
    # set by a switch element that lays its children out as a ladder of cases
    bias, ctx.case_bias = ctx.case_bias, False
    want = ctx.opts.get("stmt_p", 3)
    kinds = ["define", "condition", "repeat", "switch", "case", "content",
             "replace", "omit-tag", "attributes"]
    chosen = [k for k in kinds if d(st.integers(0, 9)) < want]
    for banned in ctx.opts.get("ban", ()):
        if banned in chosen:
            chosen.remove(banned)
    if is_ns:
        el["ns"] = True
        el["name"] = d(st.sampled_from(["block", "omit-tag", "x"]))
        el["ns_bare"] = d(st.booleans())
        chosen = [k for k in chosen if k != "attributes"]
    if "content" in chosen and "replace" in chosen:
        chosen.remove(d(st.sampled_from(["content", "replace"])))
    if "case" in chosen and ctx.switch_depth == 0:
        chosen.remove("case")
    elif ctx.switch_depth > 0 and "case" not in chosen and \
            (bias or d(st.booleans())):
        chosen.insert(chosen.index("content") if "content" in chosen
                      else len(chosen), "case")
    if ctx.opts.get("no_same_elem_guard_conflicts", True):
        # combinations whose result depends on the order *inside* the guard
        # group are not fixed by the property (docs and code differ)
        if "repeat" in chosen and "case" in chosen:
            chosen.remove("repeat" if bias else "case")
        if "repeat" in chosen and "switch" in chosen:
            chosen.remove("switch")
    saved_scalars = list(ctx.scalars)
    saved_seqs = list(ctx.seqs)
    if "define" in chosen and ctx.def_stack and d(st.integers(0, 3)) == 0:
        # the very text of an enclosing element's statement once more
        stmts["define"] = copy.deepcopy(ctx.def_stack[-1])
    elif "define" in chosen:
        defs = []
        for _ in range(d(st.integers(1, 3))):
            scope = d(st.sampled_from(["local", "local", "local!", "global"]))
            if scope == "global":
                name = d(st.sampled_from(GLOBALS))
            else:
                name = d(st.sampled_from(LOCALS))
            if d(st.integers(0, 5)) == 0 and scope != "global":
                n2 = d(st.sampled_from([n for n in LOCALS if n != name]))
                defs.append([scope, [name, n2], rec(ctx, "d", ["const", d(
                    st.sampled_from(["(1, 2)", "['a', 'b']", "'xy'"]))])])
                for n in (name, n2):
                    if n not in ctx.scalars:
                        ctx.scalars.append(n)
            else:
                defs.append([scope, [name], rec(ctx, "d", scalar_expr(ctx))])
                if name not in ctx.scalars:
                    ctx.scalars.append(name)
        stmts["define"] = defs
    if "case" in chosen:
        c = d(st.integers(0, 2 if bias else 4))
        if c == 0:
            e = ["default"]
        else:
            pool = [["const", "1"], ["const", "2"], ["const", "'a'"],
                    ["var", "s0"], ["const", "None"], ["const", "True"]]
            if "define" in stmts:
                # the case may use a name defined on the same element
                # (definitions come first)
                for _sc, names_, _e in stmts["define"]:
                    pool += [["var", n_] for n_ in names_] * 2
            e = rec(ctx, "ca", d(st.sampled_from(pool)))
        stmts["case"] = e
    if "condition" in chosen:
        stmts["condition"] = rec(ctx, "c", scalar_expr(ctx), "bool")
    if "repeat" in chosen and ctx.rep_stack and ctx.rep_stack[-1] and \
            d(st.integers(0, 3)) == 0:
        stmts["repeat"] = copy.deepcopy(ctx.rep_stack[-1])
    elif "repeat" in chosen:
        if d(st.integers(0, 5)) == 0:
            names = ["i0", "i1"]
            e = ["const", d(st.sampled_from(
                ["[(1, 2), (3, 4)]", "[]", "[('a', 'b')]"]))]
        else:
            names = [d(st.sampled_from(LOOPVARS))]
            e = seq_expr(ctx)
            if e[0] == "var" and d(st.integers(0, 3)) == 0:
                # the loop variable reuses the name of the sequence it
                # iterates over (tal:repeat="item item")
                names = [e[1]]
                ctx.seqs = [q for q in ctx.seqs if q != e[1]] or ["q1"] \
                    if e[1] != "q1" else ["q0"]
        stmts["repeat"] = [names, rec(ctx, "rp", e, "seq")]
        for n in names:
            if n not in ctx.scalars:
                ctx.scalars.append(n)
    if "switch" in chosen:
        stmts["switch"] = rec(ctx, "sw", d(st.sampled_from(
            [["const", "1"], ["const", "2"], ["const", "'a'"], ["var", "s0"],
             ["var", "s1"], ["const", "None"]])))
    for k in ("content", "replace"):
        if k in chosen:
            c = d(st.integers(0, 9))
            if c == 0:
                e = ["default"]
            elif c == 1:
                e = ["nothing"]
            else:
                e = rec(ctx, "ct" if k == "content" else "rl",
                        scalar_expr(ctx))
            mode = d(st.sampled_from(["text", "text", "text!", "structure"]))
            stmts[k] = [mode, e]
    if "omit-tag" in chosen:
        stmts["omit-tag"] = None if d(st.integers(0, 2)) == 0 else rec(
            ctx, "o", scalar_expr(ctx), "bool")
    if "attributes" in chosen:
        entries, seen = [], set()
        for _ in range(d(st.integers(1, 3))):
            n = d(st.sampled_from(ATTR_NAMES + ["rel", "CLASS", "alt"]))
            if n.lower() in seen:
                continue
            seen.add(n.lower())
            c = d(st.integers(0, 9))
            if c == 0:
                e = ["default"]
            elif c == 1:
                e = ["nothing"]
            else:
                e = rec(ctx, "at", scalar_expr(ctx))
            entries.append([n, e])
        if ctx.opts.get("dict_attrs") and d(st.integers(0, 2)) == 0:
            pos = d(st.integers(0, len(entries)))
            # (a dictionary entry is a plain Python expression: with a
            # type prefix it would read as "name expression")
            entries.insert(pos, [None, ["rec", ctx.newtag("at"),
                                        ["var", "d0"]]
                                 if ctx.opts.get("dict_rec")
                                 else ["var", "d0"]])
            if d(st.integers(0, 3)) == 0 and not ctx.opts.get("dict_rec"):
                # a second dictionary in the same statement
                entries.insert(d(st.integers(0, len(entries))),
                               [None, ["var", "d0"]])
            if d(st.booleans()) and "k" not in seen and \
                    not ctx.opts.get("dict_rec"):
                # a named entry after the dictionary that the dictionary
                # supplies as well
                entries.append(["k", rec(ctx, "at", scalar_expr(ctx))])
                seen.add("k")
        # dynamic override only onto static attributes without ${}
        el["attrs"] = [a for a in el["attrs"] if not (
            a[1].lower() in seen and any(p[0] == "interp" for p in a[3]))]
        stmts["attributes"] = entries
    if ctx.opts.get("onerror") and d(st.integers(0, 9)) < ctx.opts["onerror"]:
        c = d(st.integers(0, 9))
        if ctx.opts.get("onerror_simple"):
            c = 0
        if c <= 3:
            e = ["const", d(st.sampled_from(["'E'", "'<b>err</b>'", "''",
                                             "None", "'a&b'"]))]
        elif c == 4:
            e = ["attr", ["attr", ["var", "error"], "type"], "__name__"]
        elif c == 5:
            e = ["call", "str", [["attr", ["var", "error"], "value"]]]
        elif c == 6:
            e = ["fstr", [["lit", "L"], ["e", ["attr", ["var", "error"],
                                               "lineno"]],
                          ["lit", "C"], ["e", ["attr", ["var", "error"],
                                               "offset"]]]]
        elif c == 7:
            e = ["nothing"]
        elif c == 8:
            e = ["boom", d(st.sampled_from(["ValueError", "OSError"])),
                 ctx.newtag("oe")]
        else:
            e = ["rec", ctx.newtag("oe"), ["var", d(st.sampled_from(
                ctx.scalars))]]
        stmts["on-error"] = [d(st.sampled_from(["text", "structure"])), e]
    if is_ns and ctx.opts.get("onerror") and ctx.opts.get("fail_p") and \
            d(st.integers(0, 2)) == 0:
        # an element of a template-language namespace whose body fails and
        # that handles the failure itself
        if "on-error" not in stmts:
            stmts["on-error"] = ["text", ["const", "'E'"]]
        if "replace" not in stmts:
            stmts["content"] = ["text", ["boom", d(st.sampled_from(
                ["ValueError", "KeyError", "OSError"])), ctx.newtag("ct")]]
    # children
    has_switch = "switch" in stmts
    if has_switch:
        ctx.switch_depth += 1
    pushed_def = "define" in stmts
    if pushed_def:
        ctx.def_stack.append(stmts["define"])
    pushed_rep = "repeat" in stmts
    if pushed_rep:
        # (a loop variable named like its sequence cannot be looped over
        # again: nothing below such an element copies a repeat statement)
        ctx.rep_stack.append(
            None if stmts["repeat"][0][0] not in LOOPVARS + ["i0"]
            else stmts["repeat"])
    budget = ctx.opts.get("max_elems", 14)
    if depth > 0 and not (d(st.integers(0, 6)) == 0):
        kids = []
        # a switch often holds nothing but cases, the catch-all not always last
        ladder = has_switch and d(st.booleans())
        for _ in range(d(st.integers(2, 4) if ladder else st.integers(0, 3))):
            if ladder and ctx.n_elems < budget:
                ctx.case_bias = True
                kids.append(["elem", element(ctx, depth - 1)])
                ctx.case_bias = False
                continue
            if d(st.integers(0, 2)) == 0 or ctx.n_elems >= budget:
                t = text_node(ctx)
                if kids and kids[-1][0] == "text":
                    continue
                kids.append(t)
            else:
                if ctx.opts.get("foreign") and d(st.integers(0, 3)) == 0:
                    # a self-closing sibling that binds a prefix to a
                    # foreign namespace: the binding ends with the element
                    kids.append(["elem", {
                        "name": "br", "stmts": {}, "children": [],
                        "order": [0], "close_space": "", "selfclose": True,
                        "attrs": [[" ", "xmlns:" + d(st.sampled_from(
                            REBIND_PREFIXES)), '"', [["lit", "urn:other"]]]]}])
                kids.append(["elem", element(ctx, depth - 1)])
        el["children"] = kids
    else:
        if d(st.booleans()):
            el["selfclose"] = True
            if ctx.opts.get("foreign") and not stmts and not is_ns and \
                    d(st.integers(0, 1)) == 0:
                # a self-closing element that binds a prefix to a foreign
                # namespace: the binding ends with the element
                el["attrs"].append([" ", "xmlns:" + d(st.sampled_from(
                    REBIND_PREFIXES)), '"', [["lit", "urn:other"]]])
        else:
            el["children"] = [text_node(ctx)] if d(st.booleans()) else []
    if has_switch:
        ctx.switch_depth -= 1
    if pushed_def:
        ctx.def_stack.pop()
    if pushed_rep:
        ctx.rep_stack.pop()
    ctx.scalars = saved_scalars
    ctx.seqs = saved_seqs
    ctx.eid = outer_eid
    return el


def bindings_strategy():
    sc = values.scalars()
    plain = st.builds(lambda s: ["str", s], values.text_values())
    return st.fixed_dictionaries({
        "s0": sc, "s1": sc, "s2": st.one_of(plain, sc),
        "q0": values.sequences(values.scalars(), 3),
        "q1": st.one_of(values.sequences(plain, 3), st.just(["none"])),
        "d0": st.builds(lambda a, b, extra: ["dict", [["k", a], ["m", b]] + (
            [[extra, a]] if extra else [])], sc, sc, st.sampled_from(
                [None, None, "items", "keys", "values"])),
        "id": st.one_of(st.none(), sc),
        "it0": st.builds(lambda l: ["iter", l], st.lists(
            st.builds(lambda n: ["int", n], st.integers(0, 9)),
            min_size=0, max_size=6)),
        "o0": st.builds(lambda a, b: ["attrobj", [["a", a], ["b", b]]],
                        sc, sc),
        # callables reachable as item only (object / dictionary) and as
        # attribute
        "o1": st.just(["itemobj", [["fn", ["func", "I"]]]]),
        "d1": st.just(["dict", [["fn", ["func", "D"]]]]),
        "o2": st.just(["attrobj", [["fn", ["func", "A"]]]]),
    })


@st.composite
def templates(draw, depth=3, **opts):
    ctx = Ctx(draw, opts)
    nodes = []
    n = draw(st.integers(1, 3))
    for i in range(n):
        if draw(st.integers(0, 3)) == 0:
            t = text_node(ctx)
            if nodes and nodes[-1][0] == "text":
                continue
            nodes.append(t)
        else:
            nodes.append(["elem", element(ctx, depth)])
    if not any(x[0] == "elem" for x in nodes):
        nodes.append(["elem", element(ctx, depth)])
    return {"nodes": nodes, "bindings": draw(bindings_strategy())}
