"""Statement-free markup grammar with randomised lexical detail.

Strategies produce JSON-able node lists; ``serialize`` turns them into
source text.  Nothing here knows about Chameleon.

node :=  ["t", text]
      |  ["e", name, [attr...], tagclose, children, endspace|None]
      |  ["c", text]      comment   <!--text-->
      |  ["cd", text]     CDATA     <![CDATA[text]]>
      |  ["pi", name, text]         <?name text?>
      |  ["dt", text]     <!DOCTYPE text>
attr :=  [space, name, form, eq_left, eq_right, value]
         form in  "dq" | "sq" | "uq" | "none"
tagclose := [space_before_close, ">" | "/>"]
"""
from __future__ import annotations

from hypothesis import strategies as st

WS = [" ", "  ", "\n", "\t", " \n  ", "\r\n", "\r"]
WS_NOCR = [" ", "  ", "\n", "\t", " \n  "]

NAME_START = list("abcxyzABDIVP_") + ["é", "日", "न", "★",
                                         # digits, but not ASCII ones
                                         "١", "２", "५"]
# (any non-ASCII code point may continue a name: combining marks, vowel
# signs and symbols included)
NAME_REST = NAME_START + list("019-._") + ["\u0301", "\u093e", "\u0e34",
                                           "\u2603"]
ENTITIES = ["&amp;", "&lt;", "&gt;", "&quot;", "&#38;", "&#x26;", "&nbsp;",
            "&apos;", "&#160;", "&unknown;"]
TEXT_ATOMS = (
    list("abcdefgXYZ 0123456789") + [" ", " ", "\n", "\n  ", "\t"] +
    ENTITIES + ["&", "& ", ">", '"', "'", "$", "{", "}", "=", "/", "-", "--",
                "!", "?", "]", "]]", ";", ":", "é", "日本", " ", " ",
                "ß", "\U0001F600"]
)
CR_ATOMS = ["\r\n", "\r", "\n\r", "\r\r", "\r\r\n"]


def _fix_dollar(s: str) -> str:
    """Make sure the text holds no '${' and no '$$' (the only sequences
    that mean something in plain text)."""
    while "${" in s or "$$" in s:
        s = s.replace("${", "$ {").replace("$$", "$ $")
    return s


def text_strategy(cr=True, min_size=1, max_size=8, extra=()):
    atoms = TEXT_ATOMS + (CR_ATOMS if cr else []) + list(extra)
    def fix(l):
        s = _fix_dollar("".join(l))
        # adjacent text nodes are concatenated: never end in '$'
        return s + " " if s.endswith("$") else s
    return st.lists(st.sampled_from(atoms), min_size=min_size,
                    max_size=max_size).map(fix)


@st.composite
def names(draw, prefixes=()):
    n = draw(st.sampled_from(NAME_START)) + "".join(
        draw(st.lists(st.sampled_from(NAME_REST), max_size=4)))
    if draw(st.integers(0, 7)) == 0:
        # letters that name white-space escapes (a regex written with
        # doubled backslashes takes them for white space)
        n = draw(st.sampled_from(["n", "t", "r", "nt", "rn", "tt", "s", "w"]))
    # a name ending in '-' or '.' is fine; avoid accidental 'xml' start
    if n.lower().startswith("xml"):
        n = "q" + n
    if prefixes and draw(st.integers(0, 4)) == 0:
        n = draw(st.sampled_from(list(prefixes))) + ":" + n
    return n


def attr_value(form, cr):
    if form == "none":
        return st.just("")
    if form == "uq":
        # characters both the tokenizer and the tag parser accept unquoted
        # ('/' is fine except right before the closing '>')
        def fixuq(l):
            s = _fix_dollar("".join(l))
            return s + "x" if s.endswith("/") else s
        quoted = st.lists(st.sampled_from(
            list("abc019-._:;,+*#@!?()[]{}|~^%&") + ['"', "'", "/"]),
            min_size=1, max_size=4).map(
                lambda l: "x" + fixuq(l))      # quotes, but not up front
        return st.one_of(quoted, st.lists(st.sampled_from(
            list("abc019-._:;,+*#@!?()[]{}|~^%&é日") + ["/", "/", "a/b"]),
            min_size=1, max_size=5).map(fixuq), st.lists(st.sampled_from(
                list("abc019-._:;,+*#@!?()[]{}|~^%&é日") + ["/", "/", "a/b"]),
                min_size=1, max_size=5).map(fixuq),
            st.sampled_from([v for v in MAGIC_VALUES if " " not in v and not v.endswith("/")]))
    bad = '"' if form == "dq" else "'"
    atoms = [a for a in TEXT_ATOMS if bad not in a] + ["<", "<b>", "/>", ">"]
    if cr:
        atoms = atoms + CR_ATOMS
    return st.one_of(
        st.lists(st.sampled_from(atoms), max_size=6).map(
            lambda l: _fix_dollar("".join(l))),
        st.lists(st.sampled_from(atoms), max_size=6).map(
            lambda l: _fix_dollar("".join(l))),
        st.lists(st.sampled_from(atoms), max_size=6).map(
            lambda l: _fix_dollar("".join(l))),
        st.sampled_from(MAGIC_VALUES))


# values that mean something to the template language when they stand
# somewhere else (namespace URIs, keywords): as the value of an ordinary
# attribute they are just text
MAGIC_VALUES = [
    "http://xml.zope.org/namespaces/tal",
    "http://xml.zope.org/namespaces/metal",
    "http://xml.zope.org/namespaces/i18n",
    "http://xml.zope.org/namespaces/meta",
    "http://www.w3.org/1999/xhtml", "http://www.w3.org/2000/xmlns/",
    "http://www.w3.org/XML/1998/namespace",
    "default", "nothing", "structure x", "python: 1", "string:a", "xmlns",
    "tal:content", "false", "off", "None",
]


@st.composite
def attrs(draw, cr=True, prefixes=(), max_attrs=4,
          forms=("dq", "dq", "sq", "uq", "none"), soup=False):
    ws = WS if cr else WS_NOCR
    out = []
    n = draw(st.integers(0, max_attrs))
    for _ in range(n):
        form = draw(st.sampled_from(forms))
        space = draw(st.sampled_from(ws))
        name = draw(names(prefixes))
        if out and draw(st.integers(0, 9)) == 0:
            name = out[-1][1]            # duplicate attribute
        if soup and draw(st.integers(0, 11)) == 0:
            # tag soup: a digit-led "attribute" (the lexer ends the tag
            # there; whatever follows is character data)
            name = draw(st.sampled_from(list("0129"))) + name
        elif soup and out and out[-1][2] in ("dq", "sq") and \
                draw(st.integers(0, 9)) == 0:
            # tag soup: an attribute glued to the closing quote of the one
            # before it (<img src="a.png"alt="x" title="t">) - the tag ends
            # at the quote, the rest is character data
            space = ""
        if form == "none":
            eql = eqr = ""
        else:
            eql = draw(st.sampled_from(["", "", "", " ", "\n"]))
            eqr = draw(st.sampled_from(["", "", "", " ", "\n "]))
            if form == "uq":
                # "a= b" tokenizes as valueless a + b; keep it tight
                eqr = ""
        value = draw(attr_value(form, cr))
        out.append([space, name, form, eql, eqr, value])
    # after a digit-led name the rest of the tag is character data: a '<'
    # in a later value would start markup of its own
    souped = False
    for i, a in enumerate(out):
        if souped or a[1][:1].isdigit() or (i and a[0] == ""):
            souped = True
            a[5] = a[5].replace("<", "(")
    return out


def comment_text(cr=True):
    atoms = [a for a in TEXT_ATOMS if "-" not in a and a != ">"] + \
        ["- ", " -", "<", "<b>", "> "]
    if cr:
        atoms = atoms + CR_ATOMS

    def fix(l):
        s = _fix_dollar("".join(l))
        # "<!--!" and "<!--?" are template syntax; "--" may not occur and
        # the text may not end in "-"
        if s[:1] in "!?>":
            s = " " + s
        while "--" in s:
            s = s.replace("--", "- -")
        if s.endswith("-"):
            s += " "
        if s.startswith("-"):
            s = " " + s
        return s
    return st.lists(st.sampled_from(atoms), max_size=6).map(fix)


def cdata_text(cr=True):
    atoms = TEXT_ATOMS + ["<", "<b>", "</b>", "&"] + (CR_ATOMS if cr else [])

    def fix(l):
        s = _fix_dollar("".join(l))
        while "]]>" in s:
            s = s.replace("]]>", "]] >")
        # the tokenizer's CDATA end needs the text not to end in ']'
        return s
    return st.lists(st.sampled_from(atoms), max_size=6).map(fix)


DOCTYPES = [
    "html",
    'html PUBLIC "-//W3C//DTD XHTML 1.0 Strict//EN" '
    '"http://www.w3.org/TR/xhtml1/DTD/xhtml1-strict.dtd"',
    "doc SYSTEM 'doc.dtd'",
    'doc [\n<!ENTITY e "x">\n<!ELEMENT doc (#PCDATA)>\n]',
    "html\n",
]
PI_NAMES = ["pi", "php", "target", "x-y", "Python", "pythonx", "python-x",
            "python.y", "xml-stylesheet", "xmlfoo", "xml-x"]


@st.composite
def nodes(draw, depth, cr=True, prefixes=(), allow_unclosed=True, soup=False):
    ws = WS if cr else WS_NOCR
    kind = draw(st.sampled_from(
        ["t", "t", "e", "e", "e", "c", "cd", "pi"] if depth > 0
        else ["t", "t", "c", "cd", "pi", "e0"]))
    if kind == "t":
        return ["t", draw(text_strategy(cr))]
    if kind == "c":
        return ["c", draw(comment_text(cr))]
    if kind == "cd":
        return ["cd", draw(cdata_text(cr))]
    if kind == "pi":
        body = draw(st.lists(st.sampled_from(
            list("abc =\"'") + ["\n", "? ", "<", ">x", "é"]), max_size=6))
        text = _fix_dollar("".join(body))
        while "?>" in text:
            text = text.replace("?>", "? >")
        if text and not text[0].isspace():
            text = " " + text
        return ["pi", draw(st.sampled_from(PI_NAMES)), text]
    name = draw(names(prefixes))
    form = draw(st.integers(0, 9))
    no_end = kind == "e0" or form == 0 or (allow_unclosed and form == 1)
    # a digit-led attribute name turns the start tag into character data,
    # so it is only generated where no end tag follows
    a = draw(attrs(cr, prefixes, soup=soup and no_end))
    sp = draw(st.sampled_from(["", "", "", " ", "\n", "  "]))
    if kind == "e0" or form == 0:
        # self-closing
        return ["e", name, a, [sp, "/>"], [], None]
    if allow_unclosed and form == 1:
        # unclosed start tag (tag soup): no children of its own
        return ["e", name, a, [sp, ">"], [], None]
    children = draw(st.lists(
        nodes(depth - 1, cr, prefixes, allow_unclosed, soup), max_size=3))
    endspace = draw(st.sampled_from(["", "", "", " ", "\n", " \n "]))
    if soup and draw(st.integers(0, 15)) == 0:
        # tag soup: something behind the name of the end tag (the tag ends
        # after the white space, the rest is text)
        endspace = draw(st.sampled_from([" foo", "\nx y", " /", "  b=c"]))
    return ["e", name, a, [sp, ">"], children, endspace]


def ser_attr(a):
    space, name, form, eql, eqr, value = a
    if form == "none":
        return space + name
    q = {"dq": '"', "sq": "'", "uq": ""}[form]
    return space + name + eql + "=" + eqr + q + value + q


def ser_start(name, attrs_, close):
    return "<" + name + "".join(ser_attr(a) for a in attrs_) + \
        close[0] + close[1]


def serialize(nodes_) -> str:
    out = []
    for n in nodes_:
        k = n[0]
        if k == "t":
            out.append(n[1])
        elif k == "c":
            out.append("<!--" + n[1] + "-->")
        elif k == "cd":
            out.append("<![CDATA[" + n[1] + "]]>")
        elif k == "pi":
            out.append("<?" + n[1] + n[2] + "?>")
        elif k == "dt":
            out.append("<!DOCTYPE " + n[1] + ">")
        elif k == "raw":
            out.append(n[1])
        elif k == "e":
            _, name, a, close, children, endspace = n
            out.append(ser_start(name, a, close))
            if endspace is not None:
                out.append(serialize(children))
                out.append("</" + name + endspace + ">")
        else:
            raise ValueError(k)
    return "".join(out)


FOREIGN = {"foo": "urn:foo", "svg": "http://www.w3.org/2000/svg",
           "x": "http://example.org/x"}


@st.composite
def documents(draw, max_depth=3, xml=None, cr=True, soup=False):
    """A whole document: optional XML declaration, optional doctype, a root
    element declaring the foreign prefixes, arbitrary content."""
    if xml is None:
        xml = draw(st.booleans())
    head = []
    if xml:
        decl = draw(st.sampled_from([
            '<?xml version="1.0"?>', '<?xml version="1.0" ?>',
            "<?xml version='1.0' encoding='utf-8'?>",
            '<?xml version="1.0" encoding="UTF-8" standalone="yes"?>']))
        head.append(["raw", decl])
        if draw(st.booleans()):
            head.append(["t", draw(st.sampled_from(["\n", "\r\n", " "]))
                         if cr else "\n"])
    if draw(st.integers(0, 3)) == 0:
        head.append(["dt", draw(st.sampled_from(DOCTYPES))])
        head.append(["t", "\n"])
    use_prefixes = draw(st.booleans())
    prefixes = tuple(sorted(FOREIGN)) if use_prefixes else ()
    root_attrs = draw(attrs(cr, (), max_attrs=2))
    if use_prefixes:
        for p in prefixes:
            root_attrs.append([" ", "xmlns:" + p, draw(st.sampled_from(
                ["dq", "sq"])), "", "", FOREIGN[p]])
        if draw(st.booleans()):
            root_attrs.append([" ", "xmlns", "dq", "", "",
                               "http://www.w3.org/1999/xhtml"])
    children = draw(st.lists(nodes(max_depth, cr, prefixes, soup=soup),
                             max_size=4))
    root = ["e", draw(names()), root_attrs, ["", ">"], children,
            draw(st.sampled_from(["", "", " "]))]
    tail = draw(st.lists(nodes(0, cr, ()), max_size=2))
    lead = draw(st.lists(nodes(0, cr, ()), max_size=1)) if not xml else []
    if draw(st.integers(0, 9)) == 0:
        # invisible characters at the very start (also in front of an XML
        # declaration, which then is an ordinary processing instruction)
        lead = [["raw", draw(st.sampled_from(
            ["\ufeff", "\u200b", "\xa0", "\ufeff\ufeff", "\u2060",
             "\ufffe"]))]] + lead
    return {"xml": xml, "nodes": lead + head + [root] + tail}
