"""Symbolic (JSON-able) descriptions of the values bound to template
variables, and their instantiation as fresh Python objects.

desc := ["none"] | ["int", n] | ["float", x] | ["bool", b] | ["str", s]
      | ["strsub", s] | ["bytes", s] | ["html", s] | ["obj", s]
      | ["msg", s] | ["list", [desc..]] | ["tuple", [desc..]]
      | ["gen", [desc..]] | ["range", n] | ["dict", [[k, desc]..]]
      | ["items", [[k, desc]..]] | ["keys", [[k, desc]..]]
      | ["attrobj", [[k, desc]..]] | ["itemobj", [[k, desc]..]]
"""
from __future__ import annotations

from hypothesis import strategies as st


class StrSub(str):
    pass


class StrSubStr(str):
    """str subclass whose string form differs from its (harmless)
    character buffer - a lazily decorated string."""

    def __new__(cls, raw, shown):
        self = str.__new__(cls, raw)
        self.shown = shown
        return self

    def __str__(self):
        return self.shown


class DefObj:
    """Not a string, no __html__, and an attribute ``default`` that is an
    object itself (what the default translation function answers for it is
    that inner object - which is not a string either)."""

    def __init__(self, s):
        self.default = Obj(s)

    def __str__(self):
        return "outer"


class Html:
    """Object offering __html__ (markup, inserted unescaped)."""

    def __init__(self, s):
        self.s = s

    def __html__(self):
        return self.s

    def __str__(self):  # must never be used
        return "STR-OF-HTML-OBJECT"

    def __repr__(self):
        return "Html(%r)" % self.s


class Obj:
    """Plain object: not str/number/__html__; str() gives ``s``."""

    def __init__(self, s):
        self.s = s

    def __str__(self):
        return self.s

    def __repr__(self):
        return "Obj(%r)" % self.s


class Msg:
    """A 'message' object: no __html__, not a string or number; carries a
    message id that a translation function may look at."""

    def __init__(self, msgid):
        self.msgid = msgid

    def __str__(self):
        return "msg:" + self.msgid

    def __repr__(self):
        return "Msg(%r)" % self.msgid


class SeqObj:
    """Sized container whose __iter__ is a generator (no __length_hint__,
    not copyable)."""

    def __init__(self, items):
        self._items = items

    def __len__(self):
        return len(self._items)

    def __iter__(self):
        for x in self._items:
            yield x

    def __repr__(self):
        return "SeqObj(%r)" % (self._items,)


class IntSub(int):
    """int subclass with a label as string form (IntEnum-like)."""

    def __new__(cls, n, label):
        inst = int.__new__(cls, n)
        inst.label = label
        return inst

    def __str__(self):
        return self.label

    def __repr__(self):
        return "IntSub(%d, %r)" % (int(self), self.label)


class FloatSub(float):
    def __new__(cls, x, label):
        inst = float.__new__(cls, x)
        inst.label = label
        return inst

    def __str__(self):
        return self.label

    def __repr__(self):
        return "FloatSub(%r, %r)" % (float(self), self.label)


class AttrObj:
    def __init__(self, d):
        self.__dict__.update(d)

    def __repr__(self):
        return "AttrObj(%r)" % sorted(self.__dict__)


class ItemObj:
    """Only __getitem__ (attribute access must fall back to it)."""

    def __init__(self, d):
        self._d = d

    def __getitem__(self, k):
        return self._d[k]

    def __repr__(self):
        return "ItemObj(%r)" % sorted(self._d)


class Gen:
    """One-shot iterable like a generator (no length, no length hint), but
    with a text form that does not contain a memory address: two renderings
    that insert it as text stay comparable."""

    def __init__(self, items):
        self._g = (x for x in items)

    def __iter__(self):
        return self

    def __next__(self):
        return next(self._g)

    def __repr__(self):
        return "<gen>"


class Iter(Gen):
    """Like a list iterator: one-shot, with a length hint."""

    def __init__(self, items):
        self._g = iter(items)

    def __length_hint__(self):
        return self._g.__length_hint__()

    def __repr__(self):
        return "<iter>"


class Func:
    """A pure callable with a stable text form (may be a mapping value or
    an attribute)."""

    def __init__(self, tag):
        self.tag = tag

    def __call__(self, *args):
        return "%s(%s)" % (self.tag, ",".join(str(a) for a in args))

    def __repr__(self):
        return "<func %s>" % self.tag

    __str__ = __repr__


def instantiate(d, encoding="utf-8"):
    k = d[0]
    if k == "none":
        return None
    if k in ("int", "float", "bool", "str"):
        return d[1]
    if k == "strsub":
        return StrSub(d[1])
    if k == "bytes":
        return d[1].encode(encoding)
    if k == "html":
        return Html(d[1])
    if k == "obj":
        return Obj(d[1])
    if k == "msg":
        return Msg(d[1])
    if k == "list":
        return [instantiate(x, encoding) for x in d[1]]
    if k == "tuple":
        return tuple(instantiate(x, encoding) for x in d[1])
    if k == "gen":
        return Gen([instantiate(x, encoding) for x in d[1]])
    if k == "range":
        return range(d[1])
    if k == "iter":
        return Iter([instantiate(x, encoding) for x in d[1]])
    if k == "set":
        return set(instantiate(x, encoding) for x in d[1])
    if k == "frozenset":
        return frozenset(instantiate(x, encoding) for x in d[1])
    if k == "userlist":
        import collections
        return collections.UserList(instantiate(x, encoding) for x in d[1])
    if k == "seqobj":
        return SeqObj([instantiate(x, encoding) for x in d[1]])
    if k == "intsub":
        return IntSub(d[1], d[2])
    if k == "floatsub":
        return FloatSub(d[1], d[2])
    if k == "func":
        return Func(d[1])
    if k in ("dict", "items", "keys", "attrobj", "itemobj"):
        dd = {kk: instantiate(v, encoding) for kk, v in d[1]}
        if k == "dict":
            return dd
        if k == "items":
            return dd.items()
        if k == "keys":
            return dd.keys()
        if k == "attrobj":
            return AttrObj(dd)
        return ItemObj(dd)
    raise ValueError(d)


def env(bindings, encoding="utf-8"):
    return {k: instantiate(v, encoding) for k, v in bindings.items()
            if v is not None}


HOSTILE = ["<", ">", "&", '"', "'", "<b>", "</a>", "&amp;", "&lt;", "]]>",
           "-->", "<!--", "a&b", "x<y", "'\"", "<script>alert(1)</script>",
           "é<", "日本&", "${x}", "$", "{", "}"]
PLAIN = ["", "a", "abc", "x y", "0", "é", "日本", "Hello world", " pad ", "\n"]


def text_values(hostile=True, max_size=4):
    atoms = PLAIN + (HOSTILE if hostile else [])
    return st.lists(st.sampled_from(atoms), min_size=0,
                    max_size=max_size).map("".join)


def scalars(hostile=True):
    t = text_values(hostile)
    return st.one_of(
        st.just(["none"]),
        st.builds(lambda n: ["int", n], st.integers(-3, 1000)),
        st.builds(lambda x: ["float", x], st.sampled_from(
            [0.0, 1.5, -2.25, 1e3, 3.0])),
        st.builds(lambda b: ["bool", b], st.booleans()),
        st.builds(lambda s: ["str", s], t),
        st.builds(lambda s: ["str", s], t),
        st.builds(lambda s: ["strsub", s], t),
        st.builds(lambda s: ["bytes", s], t),
        st.builds(lambda s: ["html", s], t),
        st.builds(lambda s: ["obj", s], t),
    )


def sequences(elem=None, max_size=4):
    if elem is None:
        elem = scalars()
    items = st.lists(elem, max_size=max_size)
    return st.one_of(
        st.builds(lambda l: ["list", l], items),
        st.builds(lambda l: ["tuple", l], items),
        st.builds(lambda l: ["gen", l], items),
        st.builds(lambda n: ["range", n], st.integers(0, max_size)),
    )
