"""Thin, total wrappers around the code under test.

Every call into Chameleon goes through ``run`` so that *its* exceptions
become data (an outcome to compare) while exceptions of the harness stay
exceptions.
"""
from __future__ import annotations

import os
import sys

SRC = os.environ.get("VERIF_SRC", "/repo/src")


class Outcome:
    """Result of calling into the code under test."""

    __slots__ = ("value", "exc")

    def __init__(self, value=None, exc=None):
        self.value = value
        self.exc = exc

    @property
    def ok(self):
        return self.exc is None

    @property
    def exc_name(self):
        return type(self.exc).__name__ if self.exc is not None else None

    def brief(self):
        if self.exc is None:
            return {"value": self.value if isinstance(
                self.value, (str, int, float, type(None), list, dict))
                else repr(self.value)}
        return {"exc": type(self.exc).__name__,
                "msg": str(self.exc.args[0])[:300] if self.exc.args else ""}


def run(fn, *args, **kwargs) -> Outcome:
    try:
        return Outcome(value=fn(*args, **kwargs))
    except RecursionError as e:
        return Outcome(exc=e)
    except Exception as e:  # noqa: BLE001 - outcome of the code under test
        return Outcome(exc=e)
    except BaseException as e:  # KeyboardInterrupt etc. raised by templates
        if isinstance(e, (KeyboardInterrupt, SystemExit, GeneratorExit)) \
                and getattr(e, "_verif_planted", False):
            return Outcome(exc=e)
        raise


def chameleon_origin():
    import chameleon
    return os.path.dirname(os.path.abspath(chameleon.__file__))


def assert_src():
    """The code under test must come from VERIF_SRC (else: harness error)."""
    from vlib.harness import HarnessError
    got = chameleon_origin()
    want = os.path.join(os.path.abspath(SRC), "chameleon")
    if os.path.realpath(got) != os.path.realpath(want):
        raise HarnessError("chameleon imported from %s, expected %s" % (
            got, want))
