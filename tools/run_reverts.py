#!/usr/bin/env python3
"""Sensitivity to the repaired defects: for every 'fix:' commit in /repo that
KNOWN_FINDINGS.json lists ("fixed: property=CNN <commit> ..."), take the fix
out again on a scratch copy of /repo/src (reverse diff of that commit alone)
and run the property's check: it has to report the violation again.  Also
runs the hand-written mutants selftest/mutants/cNN_*.patch.  Result table:
selftest/RESULTS.md.   usage: tools/run_reverts.py [-j 3] [--only COMMIT]
"""
import json
import os
import re
import shutil
import subprocess
import sys
import tempfile
import multiprocessing.pool

ROOT = os.path.dirname(os.path.dirname(os.path.abspath(__file__)))
# (newest first) 95f0035 replaced the mechanism that 31f1807 had patched
TOGETHER = {"31f1807": [], "95f0035": ["31f1807"], "2f7a789": ["ea753ee"]}
SKIP = {"31f1807": "superseded by 95f0035 (reverted together with it)",
        "ea753ee": "reverted together with 2f7a789"}


def run(check, patch_text, strip):
    scratch = tempfile.mkdtemp(prefix="revert.")
    try:
        shutil.copytree("/repo/src/chameleon",
                        os.path.join(scratch, "src", "chameleon"),
                        ignore=shutil.ignore_patterns("__pycache__"))
        pf = os.path.join(scratch, "p.diff")
        with open(pf, "w") as f:
            f.write(patch_text)
        p = subprocess.run(["patch", "-s", "-p%d" % strip,
                            "--no-backup-if-mismatch", "-i", pf],
                           cwd=scratch, capture_output=True, text=True)
        if p.returncode != 0:
            return "does-not-apply", []
        env = dict(os.environ, VERIF_SRC=os.path.join(scratch, "src"),
                   VERIF_EVIDENCE_DIR=os.path.join(scratch, "evidence"),
                   VERIF_REPLAY_DIR=os.path.join(scratch, "replays"))
        p = subprocess.run([os.path.join(ROOT, "bin", "check"), check],
                           env=env, capture_output=True, text=True,
                           timeout=3600)
        lines = [ln for ln in p.stdout.splitlines()
                 if ln.startswith(("mismatch", "VIOLATION", "HARNESS"))]
        return p.returncode, lines[:2]
    finally:
        shutil.rmtree(scratch, ignore_errors=True)


def run_git_revert(check, commits):
    """Revert through git's three-way merge in a scratch worktree (copes
    with context that later commits moved)."""
    wt = tempfile.mkdtemp(prefix="revert-wt.")
    os.rmdir(wt)
    try:
        p = subprocess.run(["git", "-C", "/repo", "worktree", "add", "-q",
                            "--detach", wt, "HEAD"], capture_output=True,
                           text=True)
        if p.returncode != 0:
            return "worktree-failed", []
        for c in commits:
            p = subprocess.run(["git", "-C", wt, "revert", "--no-commit", c],
                               capture_output=True, text=True)
            if p.returncode != 0:
                return "does-not-apply", []
        env = dict(os.environ, VERIF_SRC=os.path.join(wt, "src"),
                   VERIF_EVIDENCE_DIR=os.path.join(wt, "_evidence"),
                   VERIF_REPLAY_DIR=os.path.join(wt, "_replays"))
        p = subprocess.run([os.path.join(ROOT, "bin", "check"), check],
                           env=env, capture_output=True, text=True,
                           timeout=3600)
        lines = [ln for ln in p.stdout.splitlines()
                 if ln.startswith(("mismatch", "VIOLATION", "HARNESS"))]
        return p.returncode, lines[:2]
    finally:
        subprocess.run(["git", "-C", "/repo", "worktree", "remove",
                        "--force", wt], capture_output=True)
        shutil.rmtree(wt, ignore_errors=True)


def job(args):
    label, check, text, strip, what = args
    if isinstance(text, list):
        rc, lines = run_git_revert(check, text)
    else:
        rc, lines = run(check, text, strip)
    return label, check, rc, lines, what


def main():
    jobs = int(sys.argv[sys.argv.index("-j") + 1]) if "-j" in sys.argv else 3
    only = sys.argv[sys.argv.index("--only") + 1] if "--only" in sys.argv \
        else None
    kf = json.load(open(os.path.join(ROOT, "KNOWN_FINDINGS.json")))
    work = []
    for line in kf["fixed_lines"]:
        m = re.match(r"fixed: property=(C\d\d) ([0-9a-f]{7,}) (.*)", line)
        if not m:
            continue
        prop, commit, what = m.groups()
        if only and only != commit:
            continue
        if commit in SKIP:
            continue
        # a fix made in two commits is taken out as a whole
        commits = [commit] + TOGETHER.get(commit, [])
        text = commits
        commit = "+".join(commits)
        work.append(("revert " + commit, prop, text, 1, what[:100]))
    if not only:
        md = os.path.join(ROOT, "selftest", "mutants")
        for fn in sorted(os.listdir(md)):
            if fn.endswith(".patch"):
                work.append((fn, "C" + fn[1:3], open(os.path.join(
                    md, fn)).read(), 1, "hand-written"))
    rows = []
    pool = multiprocessing.pool.ThreadPool(jobs)
    for label, check, rc, lines, what in pool.imap(job, work):
        verdict = {1: "detected", 0: "MISSED"}.get(rc, str(rc))
        rows.append((label, check, verdict, (lines or [""])[0][:90], what))
        print(rows[-1][:3], flush=True)
    if not only:
        with open(os.path.join(ROOT, "selftest", "RESULTS.md"), "w") as f:
            f.write("# Reverted fixes and hand-written mutants vs checks "
                    "(quick tier, seed 1)\n\n'does-not-apply': a later fix "
                    "rewrote the same lines, the revert of this commit alone "
                    "is not expressible as a patch.\n\n| change | check | "
                    "result | first line | what |\n|---|---|---|---|---|\n")
            for r in rows:
                f.write("| %s | %s | %s | %s | %s |\n" % r)
    bad = [r[0] for r in rows if r[2] == "MISSED"]
    print("missed:", bad)
    return 1 if bad else 0


sys.exit(main())
