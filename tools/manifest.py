#!/usr/bin/env python3
"""Regenerates MANIFEST.json from the table below and validates it (and any
evidence files present) against the schemas in /root/.vp when available.

Run with:  python3-vt tools/manifest.py
"""
import json
import os
import sys

ROOT = os.path.dirname(os.path.dirname(os.path.abspath(__file__)))

# id -> (category, technique, level text, level note, design ref)
CHECKS = {
    "C01": (
        "exploration",
        "Hypothesis abstract-template generation + independent reference "
        "interpreter + metamorphic attribute permutation",
        "Generated abstract templates (random subsets of the TAL statements "
        "on nested elements, every value class bound to the variables) are "
        "serialized to source, rendered by Chameleon and by an independent "
        "reference interpreter that never sees the source text; rendered "
        "text / exception class must agree, and re-writing the statement "
        "attributes of every element in other orders must not change the "
        "result.",
        "Trusts the reference interpreter in vlib/tmodel.py (calibrated "
        "against docs/reference.rst; characterisation-only parts are marked "
        "(char.)); accepts both the implementation's and the documented "
        "order inside the guard group.",
        "DESIGN.md 3/C01"),
    "C04": (
        "exploration",
        "Hypothesis expression-tree generation + reference evaluation on the "
        "tree + ordered call-log comparison",
        "TALES expressions are generated as trees (pipes of 1..4 "
        "alternatives that succeed or raise each caught / not-caught class, "
        "prefix nestings, string: bodies, lambdas, comprehensions, f-strings, "
        "attribute->item fallback, names shadowing builtins) at every "
        "statement and interpolation site; value/exception and the ordered "
        "log of evaluated alternatives are compared with a reference "
        "evaluation on the tree, so double evaluation, evaluation of "
        "unrendered parts and wrong fallback are all observable.",
        "Trusts vlib/exprs.py; logs compared modulo statement order inside "
        "the guard group / late group of one element activation.",
        "DESIGN.md 3/C04"),
    "C02": (
        "exploration",
        "Hypothesis site x value generation + metamorphic structure "
        "comparison (independent reader) + un-escape round trip",
        "Templates of sentinel-bracketed insertion sites (25 kinds covering "
        "every site class the property lists) are rendered with hostile "
        "values of eight classes; every inserted region is cut out exactly "
        "and must be free of raw markup characters and of its attribute's "
        "quote, must un-escape to the value's string form, and the document "
        "structure seen by an independent reader must equal that of the same "
        "template rendered with a harmless value; opt-out sites must deliver "
        "the value verbatim.",
        "Trusts html.unescape and the small reader in vlib/reader.py.",
        "DESIGN.md 3/C02"),
    "C03": (
        "exploration",
        "Hypothesis grammar-based generation + round-trip/identity oracle; "
        "exhaustive enumeration of tokenizer inputs",
        "Generated-input search: every string over a 16-character markup "
        "alphabet up to length 5 (quick) / 6 (thorough) is tokenized and "
        "re-joined (exhaustive); thousands of statement-free documents with "
        "randomised lexical detail must render to themselves; documents with "
        "one dynamic island must reproduce everything around it byte for "
        "byte. A pass means no counterexample inside these bounds.",
        "Trusts the document grammar in vlib/markup.py to produce only "
        "documents the language accepts, and html.escape as escaping oracle.",
        "DESIGN.md 3/C03"),
    "C05": (
        "exploration",
        "Hypothesis scope-nesting generation + scope-chain reference model; "
        "stateful (rule-based) model test of utils.Scope",
        "Nestings of tal:define (local/global/tuple/chained) and tal:repeat "
        "over colliding names (Python builtins, names used by generated code, "
        "plain names; pre-bound or not, including falsy values) are rendered "
        "with probes of every name before, inside and after every element "
        "and compared with a scope-chain model; reserved names at every "
        "target position must be rejected at construction and near misses "
        "accepted; a Hypothesis state machine drives utils.Scope against a "
        "two-level dictionary model.",
        "Trusts the scope-chain model; K4 attributed only via the "
        "flat-dictionary deviation model; in-place macros, global repeats "
        "and engine helper names are generated here, macros with fillers "
        "under C09; K13 (translate / decode / on_error_handler unreadable) "
        "is attributed by name.",
        "DESIGN.md 3/C05"),
    "C09": (
        "exploration",
        "metamorphic: use-macro vs hand-inlined METAL-free template built "
        "from one abstract description",
        "From one abstract description the generator writes a macro library "
        "with a caller (slots filled / left default / unknown names, TAL "
        "statements on the use element, same template / other template / "
        "whole template as macro, extend-macro with a re-offered slot) AND "
        "the hand-inlined METAL-free template; both are rendered and must "
        "give the same text / exception class and the same expression call "
        "log; variable probes after each use check that macro locals stay "
        "inside and globals get out; a second part checks 'macroname'.",
        "Both sides are rendered by the code under test: the inlined form "
        "lies in the domain checked against the reference interpreter by "
        "C01/C04; generator rules that keep the two forms comparable are "
        "listed in the check's assumptions.",
        "DESIGN.md 3/C09"),
    "C10": (
        "exploration",
        "Hypothesis i18n-grammar generation + reference model of the "
        "translation call contract (ordered call log with all arguments) and "
        "of the rendered text",
        "Templates from an i18n grammar (computed / explicit message ids, "
        "nested translations, named children under condition / repeat / "
        "omit-tag / replace, domain / context / target on any ancestor, "
        "i18n:attributes on static and dynamic attributes, implicit "
        "translation options, message objects) are rendered with a recording "
        "translation function; the ordered list of calls with every argument "
        "(msgid, mapping, default, domain, context, target_language) and the "
        "output are compared with a reference model of the contract.",
        "Trusts the model in checks/c10.py; the macros part compares with the "
        "same model run on the hand-inlined tree (fillers marked with the "
        "settings of the place where they were written); the translation "
        "function is environment shared by model and implementation.",
        "DESIGN.md 3/C10"),
    "C11": (
        "fault_enumeration",
        "fault planting with generator-known coordinates + slice / line / "
        "column consistency oracle",
        "One language error is planted in a valid generated template: "
        "invalid Python at any expression site (statement argument, "
        "';'-separated part, ${} in text or attribute, later pipe "
        "alternative) or one of 34 statement-level errors from a catalogue. "
        "Construction must raise a TemplateError whose token is the planted "
        "text (or lies inside the faulty construct), whose offset slices the "
        "token out of the source, whose line/column agree with the offset "
        "and appear in the message.",
        "The serializer's recorded offsets are the ground truth; K9 and K12 "
        "are attributed by snippet / by the exact entity shift; that valid "
        "templates are never rejected is asserted by the part 'valid' and on "
        "every valid template generated by C01, C03 and C04.",
        "DESIGN.md 3/C11"),
    "C12": (
        "fault_enumeration",
        "fault planting at known source coordinates + reference interpreter "
        "for reachability + message record parsing",
        "Failures (22 classes incl. custom constructors/__str__, the OSError "
        "family, RecursionError and non-Exception classes) are planted at "
        "generated expression sites; the reference interpreter decides which "
        "one is reached first. render() must raise an instance of the "
        "planted class with equal args that is also a RenderError (never for "
        "RecursionError; never an Exception for KeyboardInterrupt/SystemExit/"
        "GeneratorExit), and the message's records must be exactly the "
        "failing expression (text, file, line, column) followed by every "
        "use-macro call site, innermost first - also through load: chains "
        "over up to 4 files, same-template macros and slot fillers.",
        "Serializer offsets / scaffold string indices are the ground truth; "
        "entity/';;'-related excerpt shifts are attributed to K12.",
        "DESIGN.md 3/C12"),
    "C13": (
        "fault_enumeration",
        "Hypothesis template generation with planted faults + reference "
        "interpreter with rollback semantics",
        "C01-style templates with tal:on-error on random elements and "
        "failures planted at random expression sites (15 Exception classes, "
        "rarely KeyboardInterrupt/SystemExit/RecursionError), 9 fallback "
        "kinds and a recording on_error_handler; rendered text or "
        "propagating class, the handler-call log and the expression call log "
        "must equal the reference interpreter's (try / truncate / fallback).",
        "Trusts the rollback model in vlib/tmodel.py; K5 attributed only if "
        "the leak deviation model reproduces text, handler log and call log.",
        "DESIGN.md 3/C13"),
    "C06": (
        "exploration",
        "Hypothesis part-list generation per interpolation context + "
        "constructed expected output + evaluation log",
        "Documents made of interpolation sites (element text, both kinds of "
        "quoted attribute values, comments, <!--? comments, CDATA) under up "
        "to three nested meta:interpolation switches and both settings of "
        "comment interpolation; each site mixes literal atoms ($, $$, braces, "
        "quotes, entities) with ${...} whose expressions are rich in braces, "
        "quotes and '$'. Because the generator knows the parts, output and "
        "the ordered log of evaluated expressions are constructed and "
        "compared exactly; switched-off regions must come out literally with "
        "nothing evaluated.",
        "Trusts Python eval of the generator's expression text and the "
        "per-context escaping model; K1 attributed only via its deviation "
        "model.",
        "DESIGN.md 3/C06"),
    "C07": (
        "exploration",
        "Hypothesis generation of attribute merges + reference merge model "
        "+ independent tag reader",
        "One element with 0..5 static attributes and 0..5 tal:attributes "
        "entries (named / dictionary / overlapping case variants / escapes / "
        "default / nothing) over 17 value kinds and four boolean-attribute "
        "configurations is rendered; the start tag is read back with an "
        "independent scanner and compared, as an ordered list of (name, "
        "quote, value) plus a set of dictionary-supplied attributes, with a "
        "reference model of the merge; duplicates are always a violation.",
        "Trusts the merge model in checks/c07.py; K6 and K10 are attributed "
        "only through their deviation models; position of dictionary-"
        "supplied attributes is not asserted.",
        "DESIGN.md 3/C07"),
    "C08": (
        "exploration",
        "exhaustive enumeration of (length, position) against closed forms; "
        "Hypothesis-generated loop nests against a reference model",
        "Every repeat variable at every position of every length up to the "
        "tier bound (60 quick / 300 thorough) plus boundary lengths around 26, "
        "702/703 and 3999/4000, read through RepeatItem and through a rendered "
        "template, is compared with independent closed forms (exhaustive "
        "inside the bound); generated nestings of tal:repeat over all iterable "
        "kinds are compared with a reference model, separators included for "
        "ordinary elements on their own line.",
        "Trusts the closed forms in checks/c08.py (documented letter "
        "sequence, roman digit tables) and the small loop model; three "
        "known findings (K2, K3, K11) are attributed through deviation "
        "models, everything else is a violation.",
        "DESIGN.md 3/C08"),
    "C14": (
        "exploration",
        "differential determinism (instances, call sequences, processes / "
        "hash seeds) + free-running threads + enumeration of harness-owned "
        "line-level schedules (sys.settrace scheduler)",
        "Generated templates are rendered in sequences of calls on one "
        "instance; every call must equal what a fresh instance returns for "
        "the same arguments (text/exception, call log), repeated calls must "
        "agree, and mutable arguments must be unchanged. The same cases are "
        "rendered in child processes under two PYTHONHASHSEED values. Shared "
        "PageTemplate / lazily compiling PageTemplateFile / loader are "
        "hammered by 2..8 free-running threads at a 1 microsecond switch "
        "interval, and - deterministically - by a scheduler that parks "
        "threads at every line of cook / cook_check / read / load / macros "
        "/ include: all single-preemption schedules of two threads, sampled "
        "or all double-preemption schedules, drawn three-thread schedules "
        "(also for threads that compile different templates of one loader "
        "side by side, with yield points inside the code generator). Further "
        "parts: other templates compiled in between two compilations of one "
        "source (isolation), per-call render arguments (translate / target "
        "language / encoding), engine-provided objects mutated by a template.",
        "No source hook is needed (line events of the named functions are "
        "the yield points); races inside one line or inside C calls are only "
        "reachable by the free-running stage.",
        "DESIGN.md 3/C14"),
    "C15": (
        "fault_enumeration",
        "exhaustive option-pair enumeration + Hypothesis histories "
        "(differential cache vs no cache) + enumeration of crash points and "
        "two-writer interleavings via file-system interposition in child "
        "processes",
        "Child processes render configurations with CHAMELEON_CACHE set; the "
        "outcome must equal the same configuration rendered without a cache. "
        "All single-option variants of a probe configuration are compiled "
        "with the base in both orders, in one process and across two "
        "processes (exhaustive), plus drawn multi-option histories. The "
        "file-system steps of storing a module are listed by interposition; "
        "a writer is killed before EVERY step and a fresh reader must render "
        "correctly and find no unparsable entry; two stopped-at-every-step "
        "writers of one entry are played through enumerated and drawn "
        "interleavings; two or three THREADS of one process store and load "
        "the same entry under line-level schedules inside the module loader; "
        "bodies that differ in one small way (line endings, a blank, a "
        "combining mark) and key material that runs together (body + class "
        "name) are compiled into one directory in either order.",
        "Crash = process death; steps observed at the Python file-system "
        "API (importlib's byte-code write is one step); reference outcome "
        "computed without cache in the checking process.",
        "DESIGN.md 3/C15"),
    "C16": (
        "exploration",
        "Hypothesis stateful (rule-based) testing against a dictionary model "
        "of files, mtimes and search path",
        "A rule-based state machine (16 processes) generates histories of "
        "write-version / touch / render / list-macros / use-macro / "
        "render-without-reload / loader.load / load:-inside-a-template over "
        "3 files x 3 search directories with mtimes that may move backwards; "
        "after every step the file template must render like a freshly "
        "compiled string template of the latest version, expose exactly that "
        "version's macros and content type, not recompile while the mtime is "
        "unchanged, and the loader must return the first match on the search "
        "path (same instance for the same name, ValueError otherwise), with "
        "load: preferring the including template's own directory. Failing "
        "histories are minimised and replayable without Hypothesis.",
        "Trusts the dictionary model in checks/c16.py; a modification always "
        "changes the mtime seen at the last read (precondition of mtime-"
        "based reloading).",
        "DESIGN.md 3/C16"),
    "C17": (
        "exploration",
        "Hypothesis configuration-product generation + differential (bytes "
        "vs str) and absolute mode oracles",
        "Self-consistent documents over 11 encodings x BOM x XML declaration "
        "x meta charset x default_encoding x string/file class are rendered "
        "from bytes and from str; outputs must be identical, free of U+FEFF, "
        "and the XML/HTML decision (content type, implicit boolean "
        "attributes, CR handling) and content_encoding must match what the "
        "document announces.",
        "Only self-consistent documents; meta-before-XML-declaration "
        "ambiguity excluded; both meta attribute orders and quoted / "
        "unquoted values are generated.",
        "DESIGN.md 3/C17"),
    "C18": (
        "exploration",
        "metamorphic re-spelling of abstract templates + leak scan with an "
        "independent reader + reference interpreter",
        "Every generated template is written in four spellings (tal: prefix; "
        "another prefix bound to the TAL URI on the root or on each element; "
        "data-<prefix>-<name> for a random subset of each element's "
        "statements; default spelling with the data option on), with foreign "
        "material mixed in (declared foreign prefix, data-x / data-x-y / "
        "data-foo-bar, xml:lang, @click, undeclared prefixes when the "
        "namespace restriction is off, repeated attributes, self-closing "
        "siblings rebinding a prefix). All spellings must render what the "
        "default spelling renders, the default must equal the reference "
        "interpreter (foreign material verbatim, in place), and a leak scan "
        "of the output must find no template-language tag, attribute, "
        "declaration or data- statement.",
        "Only the TAL namespace is re-spelled here (METAL / I18N under C09 / "
        "C10); reader and reference interpreter are trusted.",
        "DESIGN.md 3/C18"),
    "C19": (
        "exploration",
        "differential strict vs non-strict + planted invalid expressions "
        "with known offsets + reachability from the reference interpreter",
        "Valid TALES-rich templates must render identically (text, call log, "
        "exception class) under strict=True and strict=False. Templates with "
        "1..3 uniquely marked invalid expressions at random sites must fail "
        "at construction under strict=True with an ExpressionError pointing "
        "at a planted text, and under strict=False must construct and raise "
        "that ExpressionError (same token text, offset pointing at it) iff "
        "the reference interpreter reaches a planted site - otherwise the "
        "output must equal the model's.",
        "Reachability is decided by vlib/tmodel.py; K7 attributed only via "
        "its deviation model; offsets after entities are left to C11.",
        "DESIGN.md 3/C19"),
    "C20": (
        "exploration",
        "Hypothesis part-list generation with constructive expected output "
        "(reference model of text mode)",
        "Generated sequences of literal atoms (markup, quotes, "
        "template-looking attributes, $$, lone $, braces, CR/LF, non-ASCII) "
        "and ${expr} parts are rendered through PageTextTemplate (str and "
        "bytes) and PageTextTemplateFile (three encodings) and compared with "
        "the output constructed from the parts.",
        "Trusts Python eval of the generator's own expression text as the "
        "value oracle and the part-list construction of the expected text.",
        "DESIGN.md 3/C20"),
}

NOT_APPLICABLE = {}

TITLES = {}
with open(os.path.join(ROOT, "properties.jsonl")) as f:
    for line in f:
        p = json.loads(line)
        TITLES[p["id"]] = p["title"]

manifest = {
    "version": 1,
    "setup_cmd": "bin/setup",
    "hooks": {
        "guard": "MALTHE_CHAMELEON_VERIF",
        "enable": "none needed: no source hooks are installed; checks import "
                  "the working tree via PYTHONPATH=/repo/src (bin/check sets "
                  "MALTHE_CHAMELEON_VERIF=1 for uniformity)",
        "baseline_off_cmd": "cd /repo && /venv/bin/python -m pytest -ra -q "
                            "-p no:cacheprovider --timeout=900 "
                            "--continue-on-collection-errors",
        "source_commits": [],
        "add_only": True,
    },
    "engines": [{
        "name": "hypothesis-harness",
        "path": "vlib/harness.py",
        "serves_properties": sorted(CHECKS),
        "kind_free_text": "sharded Hypothesis search (16 processes) with "
                          "collect-then-shrink, failure bucketing, known-"
                          "finding attribution, JSON replay files; plus "
                          "exhaustive enumerations and atheris campaigns as "
                          "extra stages",
    }],
    "checks": [],
    "not_applicable": [
        {"property_id": k, "reason": v}
        for k, v in sorted(NOT_APPLICABLE.items())],
    "notes": "Every check: bin/check <id> --tier quick|thorough; replay with "
             "bin/check <id> --replay <file>. Exit 0 held, 1 violation, 2 "
             "harness error/inconclusive. Known findings are listed in "
             "KNOWN_FINDINGS.json and reported as KNOWN-FINDING lines.",
}
for pid in sorted(CHECKS):
    cat, tech, text, note, ref = CHECKS[pid]
    manifest["checks"].append({
        "property_id": pid,
        "quick_cmd": "bin/check %s --tier quick" % pid,
        "thorough_cmd": "bin/check %s --tier thorough" % pid,
        "evidence_file": "evidence/%s.json" % pid,
        "replay_cmd_template": "bin/check %s --replay {path}" % pid,
        "engine": "hypothesis-harness",
        "level_claimed": {"category": cat, "text": text, "design_ref": ref},
        "level_note": note,
        "technique": tech,
    })

missing = sorted(set(TITLES) - set(CHECKS) - set(NOT_APPLICABLE))
if missing and "--strict" in sys.argv:
    print("neither claimed nor not_applicable:", missing)
    sys.exit(1)
for pid in missing:
    manifest["not_applicable"].append({
        "property_id": pid,
        "reason": "check not yet registered in this revision (work in "
                  "progress; the design in DESIGN.md section 3 applies)"})

with open(os.path.join(ROOT, "MANIFEST.json"), "w") as f:
    json.dump(manifest, f, indent=1)
    f.write("\n")

try:
    import jsonschema
except ImportError:
    print("MANIFEST.json written (jsonschema not available: not validated)")
    sys.exit(0)
with open("/root/.vp/MANIFEST.schema.json") as f:
    jsonschema.validate(manifest, json.load(f))
with open("/root/.vp/EVIDENCE.schema.json") as f:
    es = json.load(f)
bad = 0
for pid in sorted(CHECKS):
    p = os.path.join(ROOT, "evidence", pid + ".json")
    if os.path.exists(p):
        with open(p) as f:
            try:
                jsonschema.validate(json.load(f), es)
            except jsonschema.ValidationError as e:
                print("evidence %s INVALID: %s" % (pid, e.message))
                bad = 1
print("MANIFEST.json written and valid: %d checks, %d not claimed" % (
    len(CHECKS), len(manifest["not_applicable"])))
sys.exit(bad)
