#!/bin/sh
# usage: tools/file_round.sh A B   - file the deliverables of finished
# seeding agents (/tmp/wt/CNN/_seeded/{patch,demo,notes}{1,2}.*) as
# seeded/CNN-A and seeded/CNN-B (development helper)
here=$(cd "$(dirname "$0")/.." && pwd)
a=$1; b=$2
for i in $(seq -w 1 20); do
  id=C$i
  [ -f /tmp/wt/$id/_seeded/patch1.diff ] && [ -f /tmp/wt/$id/_seeded/patch2.diff ] || continue
  [ -f /tmp/wt/$id/_seeded/notes2.md ] || continue
  [ -d "$here/seeded/$id-$a" ] || python3 "$here/tools/verify_seed.py" $id 1 --as $a 2>&1 | cut -c1-110
  [ -d "$here/seeded/$id-$b" ] || python3 "$here/tools/verify_seed.py" $id 2 --as $b 2>&1 | cut -c1-110
done
