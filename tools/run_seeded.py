#!/usr/bin/env python3
"""Run every seeded mutant (seeded/<id>-<k>/patch.diff) against the check of
the property it breaks, on a scratch copy of /repo/src (never /repo itself),
and record the outcome in its meta.json ("detected_by") and in
selftest/SEEDED_RESULTS.md.

usage: tools/run_seeded.py [--tier quick] [--only C07-1] [--round2]
                            [--seeds 1,2,3] [-j 3]

With several seeds a mutant counts as detected by a check only if the check
fails at EVERY seed (a detection that depends on the seed is reported as
"flaky k/n").
"""
import json
import os
import re
import shutil
import subprocess
import sys
import tempfile

ROOT = os.path.dirname(os.path.dirname(os.path.abspath(__file__)))
# mutants whose manifestation needs machinery of another property's check
ALSO = {"C19-2": ["C15"], "C07-3": ["C15"], "C09-3": ["C16"],
        "C14-3": ["C16"], "C16-4": ["C14"], "C17-3": ["C16"],
        "C01-4": ["C04"], "C05-3": ["C09"], "C11-3": ["C07"],
        "C18-3": ["C13"], "C19-4": ["C15"],
        # round 3
        "C01-6": ["C08"], "C03-6": ["C17"],
        # round 4
        "C20-7": ["C15"],
        # round 5
        "C01-10": ["C08"], "C14-10": ["C16"], "C02-10": ["C16"],
        # round 7
        "C05-14": ["C09"]}


def run(check, patch, tier, seed="1"):
    scratch = tempfile.mkdtemp(prefix="seed.")
    try:
        shutil.copytree("/repo/src/chameleon",
                        os.path.join(scratch, "src", "chameleon"),
                        ignore=shutil.ignore_patterns("__pycache__"))
        p = subprocess.run(["patch", "-s", "-p1", "--no-backup-if-mismatch",
                            "-i", patch], cwd=scratch, capture_output=True,
                           text=True)
        if p.returncode != 0:
            return "patch-failed", p.stdout[-300:] + p.stderr[-300:]
        env = dict(os.environ, VERIF_SRC=os.path.join(scratch, "src"),
                   VERIF_SEED=str(seed),
                   VERIF_EVIDENCE_DIR=os.path.join(scratch, "evidence"),
                   VERIF_REPLAY_DIR=os.path.join(scratch, "replays"))
        p = subprocess.run([os.path.join(ROOT, "bin", "check"), check,
                            "--tier", tier], env=env, capture_output=True,
                           text=True, timeout=3600)
        lines = [ln for ln in p.stdout.splitlines()
                 if ln.startswith(("mismatch", "VIOLATION", "HARNESS"))]
        return p.returncode, lines[:4]
    finally:
        shutil.rmtree(scratch, ignore_errors=True)


def one(args):
    name, tier, seeds = args
    d = os.path.join(ROOT, "seeded", name)
    patch = os.path.join(d, "patch.diff")
    # (a mutant whose context was changed by a later fix: commit in /repo
    # is kept in its original form and re-applied by hand as
    # patch.rebased.diff - the same change on the current tree)
    rebased = os.path.join(d, "patch.rebased.diff")
    if os.path.exists(rebased):
        patch = rebased
    prop = name.split("-")[0]
    results = {}
    for check in [prop] + ALSO.get(name, []):
        per_seed = {}
        lines = []
        for sd in seeds:
            rc, info = run(check, patch, tier, sd)
            per_seed[sd] = rc
            if rc == 1 and not lines:
                lines = info
        results[check] = {"exit": per_seed, "lines": lines}
    return name, results


def main():
    import multiprocessing.pool
    tier = "quick"
    only = None
    seeds = ["1"]
    jobs = 3
    if "--tier" in sys.argv:
        tier = sys.argv[sys.argv.index("--tier") + 1]
    if "--only" in sys.argv:
        only = sys.argv[sys.argv.index("--only") + 1].split(",")
    if "--seeds" in sys.argv:
        seeds = sys.argv[sys.argv.index("--seeds") + 1].split(",")
    if "-j" in sys.argv:
        jobs = int(sys.argv[sys.argv.index("-j") + 1])
    names = []
    for name in sorted(os.listdir(os.path.join(ROOT, "seeded"))):
        if only and name not in only:
            continue
        if "--round2" in sys.argv and name.split("-")[1] not in ("3", "4"):
            continue
        if os.path.exists(os.path.join(ROOT, "seeded", name, "patch.diff")):
            try:
                meta = json.load(open(os.path.join(ROOT, "seeded", name,
                                                   "meta.json")))
            except Exception:  # noqa: BLE001
                meta = {}
            if meta.get("neutralised_by"):
                # a later fix: commit made the mutant harmless (its own
                # demonstration passes on the current tree)
                print((name, "NEUTRALISED by " + meta["neutralised_by"]))
                continue
            names.append(name)
    rows = []
    pool = multiprocessing.pool.ThreadPool(jobs)
    for name, results in pool.imap(one, [(n, tier, seeds) for n in names]):
        d = os.path.join(ROOT, "seeded", name)

        def all_seeds(r):
            return all(v == 1 for v in r["exit"].values())
        detected = [c for c, r in results.items() if all_seeds(r)]
        flaky = ["%s flaky %d/%d" % (c, sum(v == 1 for v in
                                             r["exit"].values()), len(seeds))
                 for c, r in results.items()
                 if not all_seeds(r) and 1 in r["exit"].values()]
        meta_p = os.path.join(d, "meta.json")
        meta = json.load(open(meta_p))
        meta["detected_by"] = {
            "checks": detected, "tier": tier, "seeds": seeds,
            "results": {c: {"exit_by_seed": r["exit"],
                            "first_lines": r["lines"][:2]}
                        for c, r in results.items()}}
        json.dump(meta, open(meta_p, "w"), indent=1)
        what = re.sub(r"\s+", " ", meta.get("needs_to_manifest", ""))[:110]
        rows.append((name, ",".join(detected + flaky) or "MISSED", str(
            {c: r["exit"] for c, r in results.items()}), what))
        print(rows[-1][:3], flush=True)
    if not only:
        fn = "SEEDED_RESULTS_ROUND2.md" if "--round2" in sys.argv \
            else "SEEDED_RESULTS.md"
        with open(os.path.join(ROOT, "selftest", fn), "w") as f:
            f.write("# Seeded mutants (independent sub-agents) vs checks "
                    "(tier %s, seeds %s)\n\n| mutant | detected by | exit "
                    "codes by seed | what it needs |\n|---|---|---|---|\n"
                    % (tier, ",".join(seeds)))
            for r in rows:
                f.write("| %s | %s | %s | %s |\n" % r)
    missed = [r[0] for r in rows if r[1] == "MISSED" or (
        "flaky" in r[1] and not any(
            "flaky" not in x for x in r[1].split(",")))]
    print("missed or flaky only:", missed)
    return 1 if missed else 0


sys.exit(main())
