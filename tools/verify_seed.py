#!/usr/bin/env python3
"""Confirm a seeded mutant produced by a sub-agent and file it under
/verif/seeded/<prop>-<k>/.

usage: tools/verify_seed.py CNN K [--src /tmp/wt/CNN/_seeded]

Steps (all in the agent's scratch worktree /tmp/wt/CNN, never in /repo):
  1. git apply --check patchK.diff on the clean tree
  2. demoK.py on the clean tree            -> must exit 0
  3. apply; full test suite                -> must be 233 passed
  4. demoK.py with the patch               -> must exit non-zero
  5. revert
"""
import json
import os
import re
import shutil
import subprocess
import sys

ROOT = os.path.dirname(os.path.dirname(os.path.abspath(__file__)))


def sh(cmd, cwd, env=None):
    e = dict(os.environ)
    e.update(env or {})
    p = subprocess.run(cmd, shell=True, cwd=cwd, env=e, text=True,
                       capture_output=True)
    return p.returncode, (p.stdout + p.stderr)


def main():
    pid, k = sys.argv[1], sys.argv[2]
    wt = "/tmp/wt/" + pid
    if "--wt" in sys.argv:
        wt = sys.argv[sys.argv.index("--wt") + 1]
    src = os.path.join(wt, "_seeded")
    if "--src" in sys.argv:
        src = sys.argv[sys.argv.index("--src") + 1]
    file_as = k
    if "--as" in sys.argv:
        file_as = sys.argv[sys.argv.index("--as") + 1]
    patch = os.path.join(src, "patch%s.diff" % k)
    demo = os.path.join(src, "demo%s.py" % k)
    notes = os.path.join(src, "notes%s.md" % k)
    env = {"PYTHONPATH": wt + "/src", "PYTHONDONTWRITEBYTECODE": "1"}
    res = {}
    rc, out = sh("git status --porcelain --untracked-files=no", wt)
    if out.strip():
        print("worktree not clean:", out)
        sh("git checkout -- .", wt)
    rc, out = sh("git apply --check " + patch, wt)
    res["apply_check"] = rc == 0
    rc, out = sh("/venv/bin/python " + demo, wt, env)
    res["demo_clean_exit"] = rc
    sh("git apply " + patch, wt)
    rc, out = sh("/venv/bin/python -m pytest -q -p no:cacheprovider "
                 "--timeout=900 2>&1 | tail -1", wt, env)
    res["suite_with_patch"] = out.strip()
    rc, out = sh("/venv/bin/python " + demo, wt, env)
    res["demo_patched_exit"] = rc
    res["demo_patched_tail"] = out.strip().splitlines()[-3:]
    sh("git checkout -- .", wt)
    ok = (res["apply_check"] and res["demo_clean_exit"] == 0 and
          res["demo_patched_exit"] != 0 and
          re.search(r"\b233 passed", res["suite_with_patch"]) and
          "failed" not in res["suite_with_patch"])
    print(pid, k, "CONFIRMED" if ok else "REJECTED", json.dumps(res))
    if not ok:
        return 1
    dst = os.path.join(ROOT, "seeded", "%s-%s" % (pid, file_as))
    os.makedirs(dst, exist_ok=True)
    shutil.copy(patch, os.path.join(dst, "patch.diff"))
    shutil.copy(demo, os.path.join(dst, "demo.py"))
    note = open(notes).read() if os.path.exists(notes) else ""
    with open(os.path.join(dst, "notes.md"), "w") as f:
        f.write(note)
    meta = {
        "property": pid,
        "origin": "independent sub-agent given only the property text and a "
                  "scratch worktree",
        "needs_to_manifest": note.strip()[:1500],
        "confirmed": res,
        "ran": [
            "git apply --check patch.diff (clean scratch worktree)",
            "python demo.py on the clean tree (exit 0)",
            "git apply patch.diff; pytest (233 passed)",
            "python demo.py with the patch (exit != 0)",
            "git checkout -- . (reverted)",
        ],
        "detected_by": None,
    }
    mp = os.path.join(dst, "meta.json")
    if os.path.exists(mp):
        old = json.load(open(mp))
        meta["detected_by"] = old.get("detected_by")
    with open(mp, "w") as f:
        json.dump(meta, f, indent=1)
    return 0


sys.exit(main())
